/-!
# The K-ary indexed tree (`src/tree/graph.rs`)

`Tree<N,K>` is a slab arena of nodes with parent pointer, `K` child slots and a leaf flag.
The model is an inductive tree whose nodes carry their arena index; the arena (parent pointers,
leaf flags, `len`) is a *function* of it (`toArena`). The judge reconstructs the inductive tree from
every arena dump of the implementation and accepts it only if `toArena` reproduces the dump, so an
arena that is not the image of a tree (orphan, dangling child, wrong flag) is detected there.

No imports: this file is linked into the native judge.
-/
namespace AV

mutual
inductive ITree (β : Type) where
  | node (idx : Nat) (val : β) (kids : IKids β) : ITree β
inductive IKids (β : Type) where
  | nil : IKids β
  | cons (k : Option (ITree β)) (rest : IKids β) : IKids β
end

variable {β : Type}

namespace ITree
def idx : ITree β → Nat | .node i _ _ => i
def val : ITree β → β | .node _ v _ => v
def kids : ITree β → IKids β | .node _ _ k => k
end ITree

namespace IKids

/-- `K` empty slots -/
def empty : Nat → IKids β
  | 0 => .nil
  | n+1 => .cons none (empty n)

def length : IKids β → Nat
  | .nil => 0
  | .cons _ r => r.length + 1

def allNone : IKids β → Bool
  | .nil => true
  | .cons none r => r.allNone
  | .cons (some _) _ => false

def get? : IKids β → Nat → Option (ITree β)
  | .nil, _ => none
  | .cons k _, 0 => k
  | .cons _ r, n+1 => r.get? n

def set : IKids β → Nat → Option (ITree β) → IKids β
  | .nil, _, _ => .nil
  | .cons _ r, 0, o => .cons o r
  | .cons k r, n+1, o => .cons k (r.set n o)

/-- existing children in label order, with their label (starting at `l`) -/
def existingFrom : IKids β → Nat → List (Nat × ITree β)
  | .nil, _ => []
  | .cons none r, l => r.existingFrom (l+1)
  | .cons (some t) r, l => (l, t) :: r.existingFrom (l+1)

def existing (ks : IKids β) : List (Nat × ITree β) := ks.existingFrom 0

def count : IKids β → Nat
  | .nil => 0
  | .cons none r => r.count
  | .cons (some _) r => r.count + 1

end IKids

mutual
def ITree.size : ITree β → Nat
  | .node _ _ ks => 1 + ks.size
def IKids.size : IKids β → Nat
  | .nil => 0
  | .cons none r => r.size
  | .cons (some t) r => t.size + r.size
end

mutual
/-- indices in depth-first pre-order -/
def ITree.indices : ITree β → List Nat
  | .node i _ ks => i :: ks.indices
def IKids.indices : IKids β → List Nat
  | .nil => []
  | .cons none r => r.indices
  | .cons (some t) r => t.indices ++ r.indices
end

mutual
/-- the sub-tree rooted at index `i` -/
def ITree.find? : ITree β → Nat → Option (ITree β)
  | .node j v ks, i => if j = i then some (.node j v ks) else ks.find? i
def IKids.find? : IKids β → Nat → Option (ITree β)
  | .nil, _ => none
  | .cons none r, i => r.find? i
  | .cons (some t) r, i => match t.find? i with
    | some s => some s
    | none => r.find? i
end

mutual
/-- replace the sub-tree rooted at index `i` by `f` of it -/
def ITree.modifyAt (f : ITree β → ITree β) : ITree β → Nat → ITree β
  | .node j v ks, i => if j = i then f (.node j v ks) else .node j v (ks.modifyAt f i)
def IKids.modifyAt (f : ITree β → ITree β) : IKids β → Nat → IKids β
  | .nil, _ => .nil
  | .cons none r, i => .cons none (r.modifyAt f i)
  | .cons (some t) r, i => .cons (some (t.modifyAt f i)) (r.modifyAt f i)
end

mutual
/-- `(parent index, label)` of the node with index `i` -/
def ITree.parentOf? : ITree β → Nat → Option (Nat × Nat)
  | .node j _ ks, i => ks.parentOf? j 0 i
def IKids.parentOf? : IKids β → Nat → Nat → Nat → Option (Nat × Nat)
  | .nil, _, _, _ => none
  | .cons none r, p, l, i => r.parentOf? p (l+1) i
  | .cons (some t) r, p, l, i =>
    if t.idx = i then some (p, l) else
    match t.parentOf? i with
    | some e => some e
    | none => r.parentOf? p (l+1) i
end

mutual
/-- `path_to_node`: the `(node, label)` pairs from the root down to (excluding) node `i` -/
def ITree.pathTo? : ITree β → Nat → Option (List (Nat × Nat))
  | .node j _ ks, i => if j = i then some [] else ks.pathTo? j 0 i
def IKids.pathTo? : IKids β → Nat → Nat → Nat → Option (List (Nat × Nat))
  | .nil, _, _, _ => none
  | .cons none r, p, l, i => r.pathTo? p (l+1) i
  | .cons (some t) r, p, l, i =>
    match t.pathTo? i with
    | some path => some ((p, l) :: path)
    | none => r.pathTo? p (l+1) i
end

/-- `path_to_node`: follow `parent()` until the root, collecting `(parent, label)`; the code reverses the list -/
def ITree.pathUp (t : ITree β) : Nat → Nat → List (Nat × Nat)
  | 0, _ => []
  | fuel+1, i =>
    match t.parentOf? i with
    | none => []
    | some (p, l) => (p, l) :: ITree.pathUp t fuel p


/-! ### arena view -/

structure ANode (β : Type) where
  idx : Nat
  parent : Option Nat
  children : List (Option Nat)
  isleaf : Bool
  val : β

def IKids.slotIdx : IKids β → List (Option Nat)
  | .nil => []
  | .cons k r => (k.map ITree.idx) :: r.slotIdx

mutual
def ITree.toArenaAux : ITree β → Option Nat → List (ANode β)
  | .node i v ks, p => ⟨i, p, ks.slotIdx, ks.allNone, v⟩ :: ks.toArenaAux i
def IKids.toArenaAux : IKids β → Nat → List (ANode β)
  | .nil, _ => []
  | .cons none r, p => r.toArenaAux p
  | .cons (some t) r, p => t.toArenaAux (some p) ++ r.toArenaAux p
end

/-- the arena of a tree: one record per node, in pre-order -/
def ITree.toArena (t : ITree β) : List (ANode β) := t.toArenaAux none

/-! ### operations of `Tree<N,K>` -/

/-- the `NodeError` variants the operations return (`panic` = the call panics instead of returning) -/
inductive TErr
  | invalidIndex | missingChild | missingParent | childExists | rootNode | panic
deriving DecidableEq, Repr

def ITree.contains (t : ITree β) (i : Nat) : Bool := t.indices.contains i

/-- `add_child_node(parent, label, value)`; `fresh` is the slab key the allocator hands out -/
def ITree.addChildNode (t : ITree β) (parent label : Nat) (v : β) (fresh : Nat) : Except TErr (ITree β) :=
  match t.find? parent with
  | none => .error .invalidIndex
  | some p =>
    if p.kids.length ≤ label then .error .panic
    else if (p.kids.get? label).isSome then .error .childExists
    else .ok (t.modifyAt (fun s => .node s.idx s.val (s.kids.set label (some (.node fresh v (IKids.empty s.kids.length))))) parent)

/-- `try_remove_child(parent, label)`: returns the new tree and the removed value -/
def ITree.tryRemoveChild (t : ITree β) (parent label : Nat) : Except TErr (ITree β × β) :=
  match t.find? parent with
  | none => .error .invalidIndex
  | some p =>
    if p.kids.length ≤ label then .error .panic
    else match p.kids.get? label with
      | none => .error .missingChild
      | some c => .ok (t.modifyAt (fun s => .node s.idx s.val (s.kids.set label none)) parent, c.val)

/-- `remove_all_descendants(i)`: returns the new tree and the number of deleted nodes -/
def ITree.removeAllDescendants (t : ITree β) (i : Nat) : Except TErr (ITree β × Nat) :=
  match t.find? i with
  | none => .error .invalidIndex
  | some s => .ok (t.modifyAt (fun s => .node s.idx s.val (IKids.empty s.kids.length)) i, s.size - 1)

/-- `merge_child_with_parent(p, label)`: `p` is replaced by its only child -/
def ITree.mergeChildWithParent (t : ITree β) (p label : Nat) : Except TErr (ITree β) :=
  match t.find? p with
  | none => .error .panic                      -- `self.arena[parent_idx]` panics
  | some s =>
    if s.kids.count ≠ 1 then .error .panic     -- `assert!(num_children == 1)`
    else if t.idx = p then .error .rootNode
    else if s.kids.length ≤ label then .error .panic
    else match s.kids.get? label with
      | none => .error .missingChild
      | some c => .ok (t.modifyAt (fun _ => c) p)

/-- `update_node(i, value)`: returns the new tree and the previous value -/
def ITree.updateNode (t : ITree β) (i : Nat) (v : β) : Except TErr (ITree β × β) :=
  match t.find? i with
  | none => .error .invalidIndex
  | some s => .ok (t.modifyAt (fun s => .node s.idx v s.kids) i, s.val)

/-! ### metrics -/

mutual
def ITree.numTerminals : ITree β → Nat
  | .node _ _ ks => if ks.allNone then 1 else ks.numTerminals
def IKids.numTerminals : IKids β → Nat
  | .nil => 0
  | .cons none r => r.numTerminals
  | .cons (some t) r => t.numTerminals + r.numTerminals
end

mutual
/-- `depth()`: the maximal `depth` field reported by the traversal (root has depth 0) -/
def ITree.height : ITree β → Nat
  | .node _ _ ks => ks.height
def IKids.height : IKids β → Nat
  | .nil => 0
  | .cons none r => r.height
  | .cons (some t) r => max (t.height + 1) r.height
end

mutual
/-- depths of the terminals, in pre-order (`depth_stats` aggregates these) -/
def ITree.leafDepths : ITree β → Nat → List Nat
  | .node _ _ ks, d => if ks.allNone then [d] else ks.leafDepths (d+1)
def IKids.leafDepths : IKids β → Nat → List Nat
  | .nil, _ => []
  | .cons none r, d => r.leafDepths d
  | .cons (some t) r, d => t.leafDepths d ++ r.leafDepths d
end

end AV
