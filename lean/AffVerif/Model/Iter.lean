import AffVerif.Model.Tree
/-!
# Traversal machines (`src/tree/iter.rs`) and their reference traversals

`DfsPre`, `DfsEdge` and `Bfs` are explicit stack / queue machines with `skip_subtree` =
"pop what the last `next` pushed" and the two counters behind `size_hint`.
The machines below keep sub-trees (not indices) on the stack; everything observable is the same.
The reference functions are plain structural recursions; the theorems in `Props/C13.lean` show that
the machines emit exactly the reference lists.
-/
namespace AV
variable {β : Type}

/-- what a node traversal reports: `DfsNodeData {depth, index, n_remaining}` -/
structure Item where
  depth : Nat
  idx : Nat
  nrem : Nat
deriving DecidableEq, Repr

/-- what the edge traversal reports: `EdgeData {src, label, dest}` -/
structure EItem where
  src : Nat
  label : Nat
  dest : Nat
deriving DecidableEq, Repr

/-- existing children in label order (without labels) -/
def IKids.childList (ks : IKids β) : List (ITree β) := ks.existing.map (·.2)

/-- stack entries for the children `cs` of a node at depth `d - 1`: first child on top, carrying the
    number of siblings still to come -/
def entries (d : Nat) : List (ITree β) → List (Nat × ITree β × Nat)
  | [] => []
  | c :: cs => (d, c, cs.length) :: entries d cs

/-! ### DfsPre -/

structure Dfs (β : Type) where
  stack : List (Nat × ITree β × Nat)
  lastPush : Nat
  lb : Nat
  ub : Nat

/-- `DfsPre::new(tree, root)`; `whole` is the tree, `start` the sub-tree the traversal starts at -/
def Dfs.new (whole start : ITree β) : Dfs β :=
  ⟨[(0, start, 0)], 0, if start.idx = whole.idx then whole.size else 0, whole.size⟩

def Dfs.next : Dfs β → Option (Item × Dfs β)
  | ⟨[], _, _, _⟩ => none
  | ⟨(d, t, r) :: rest, _, lb, ub⟩ =>
    some (⟨d, t.idx, r⟩,
          ⟨entries (d+1) t.kids.childList ++ rest, t.kids.childList.length, lb - 1, ub - 1⟩)

def Dfs.skip (s : Dfs β) : Dfs β :=
  let st := s.stack.drop s.lastPush
  ⟨st, 0, st.length, s.ub - s.lastPush⟩

def Dfs.sizeHint (s : Dfs β) : Nat × Nat := (s.lb, s.ub)

/-! ### DfsEdge -/

structure DfsE (β : Type) where
  stack : List (Nat × Nat × Nat × ITree β)    -- depth, src, label, dest
  lastPush : Nat
  lb : Nat
  ub : Nat

def edgeEntries (d src : Nat) (cs : List (Nat × ITree β)) : List (Nat × Nat × Nat × ITree β) :=
  cs.map (fun lc => (d, src, lc.1, lc.2))

def DfsE.new (whole start : ITree β) : DfsE β :=
  ⟨edgeEntries 1 start.idx start.kids.existing, start.kids.existing.length,
   if start.idx = whole.idx then whole.size - 1 else 0, whole.size⟩

def DfsE.next : DfsE β → Option (EItem × DfsE β)
  | ⟨[], _, _, _⟩ => none
  | ⟨(d, src, l, t) :: rest, _, lb, ub⟩ =>
    some (⟨src, l, t.idx⟩,
          ⟨edgeEntries (d+1) t.idx t.kids.existing ++ rest, t.kids.existing.length, lb - 1, ub - 1⟩)

def DfsE.skip (s : DfsE β) : DfsE β :=
  let st := s.stack.drop s.lastPush
  ⟨st, 0, st.length, s.ub - s.lastPush⟩

/-! ### Bfs -/

structure BfsM (β : Type) where
  queue : List (Nat × ITree β × Nat)           -- front first
  lastPush : Nat
  lb : Nat
  ub : Nat

def BfsM.new (whole start : ITree β) : BfsM β :=
  ⟨[(0, start, 0)], 0, if start.idx = whole.idx then whole.size else 0, whole.size⟩

def BfsM.next : BfsM β → Option (Item × BfsM β)
  | ⟨[], _, _, _⟩ => none
  | ⟨(d, t, r) :: rest, _, lb, ub⟩ =>
    some (⟨d, t.idx, r⟩,
          ⟨rest ++ entries (d+1) t.kids.childList, t.kids.childList.length, lb - 1, ub - 1⟩)

def BfsM.skip (s : BfsM β) : BfsM β :=
  let q := s.queue.take (s.queue.length - s.lastPush)
  ⟨q, 0, q.length, s.ub - s.lastPush⟩

/-! ### running a machine under a skip schedule

`sk k` says how often `skip_subtree` is called after the `k`-th emitted item (0 = not at all).
The runs also record the size hint after every `next`/`skip` round. -/

def Dfs.skipN : Nat → Dfs β → Dfs β
  | 0, s => s
  | n+1, s => Dfs.skipN n s.skip

def Dfs.run (sk : Nat → Nat) : Nat → Dfs β → Nat → List (Item × Nat × Nat)
  | 0, _, _ => []
  | fuel+1, s, k =>
    match s.next with
    | none => []
    | some (it, s') =>
      let s'' := Dfs.skipN (sk k) s'
      (it, s''.lb, s''.ub) :: Dfs.run sk fuel s'' (k+1)

def DfsE.skipN : Nat → DfsE β → DfsE β
  | 0, s => s
  | n+1, s => DfsE.skipN n s.skip

def DfsE.run (sk : Nat → Nat) : Nat → DfsE β → Nat → List (EItem × Nat × Nat)
  | 0, _, _ => []
  | fuel+1, s, k =>
    match s.next with
    | none => []
    | some (it, s') =>
      let s'' := DfsE.skipN (sk k) s'
      (it, s''.lb, s''.ub) :: DfsE.run sk fuel s'' (k+1)

def BfsM.skipN : Nat → BfsM β → BfsM β
  | 0, s => s
  | n+1, s => BfsM.skipN n s.skip

def BfsM.run (sk : Nat → Nat) : Nat → BfsM β → Nat → List (Item × Nat × Nat)
  | 0, _, _ => []
  | fuel+1, s, k =>
    match s.next with
    | none => []
    | some (it, s') =>
      let s'' := BfsM.skipN (sk k) s'
      (it, s''.lb, s''.ub) :: BfsM.run sk fuel s'' (k+1)

/-! ### reference traversals (with skips) -/

mutual
/-- pre-order of `t` at depth `d` with remaining-sibling counter `r`; `k` is the position of the next
    emitted item; returns the items and the next position -/
def refDfsT (sk : Nat → Nat) (d : Nat) (t : ITree β) (r : Nat) (k : Nat) : List Item × Nat :=
  match t with
  | .node i _ ks =>
    if sk k ≠ 0 then ([⟨d, i, r⟩], k+1)
    else
      let res := refDfsK sk (d+1) ks (k+1)
      (⟨d, i, r⟩ :: res.1, res.2)
def refDfsK (sk : Nat → Nat) (d : Nat) (ks : IKids β) (k : Nat) : List Item × Nat :=
  match ks with
  | .nil => ([], k)
  | .cons none rest => refDfsK sk d rest k
  | .cons (some t) rest =>
    let a := refDfsT sk d t rest.count k
    let b := refDfsK sk d rest a.2
    (a.1 ++ b.1, b.2)
end

mutual
/-- pre-order edge list below `t` -/
def refEdgeT (sk : Nat → Nat) (src l : Nat) (t : ITree β) (k : Nat) : List EItem × Nat :=
  match t with
  | .node i _ ks =>
    if sk k ≠ 0 then ([⟨src, l, i⟩], k+1)
    else
      let res := refEdgeK sk i 0 ks (k+1)
      (⟨src, l, i⟩ :: res.1, res.2)
def refEdgeK (sk : Nat → Nat) (src l : Nat) (ks : IKids β) (k : Nat) : List EItem × Nat :=
  match ks with
  | .nil => ([], k)
  | .cons none rest => refEdgeK sk src (l+1) rest k
  | .cons (some t) rest =>
    let a := refEdgeT sk src l t k
    let b := refEdgeK sk src (l+1) rest a.2
    (a.1 ++ b.1, b.2)
end

/-- plain pre-order without skips -/
def ITree.preorder (t : ITree β) : List Item := (refDfsT (fun _ => 0) 0 t 0 0).1

/-- level order (reference for Bfs without skips): levels by repeated expansion, with fuel = height + 1 -/
def bfsLevels : Nat → Nat → List (ITree β × Nat) → List Item
  | 0, _, _ => []
  | fuel+1, d, level =>
    if level.isEmpty then [] else
    level.map (fun tr => ⟨d, tr.1.idx, tr.2⟩) ++
      bfsLevels fuel (d+1) (level.flatMap (fun tr => (entries (d+1) tr.1.kids.childList).map (fun e => (e.2.1, e.2.2))))

def ITree.levelOrder (t : ITree β) : List Item := bfsLevels (t.size + 1) 0 [(t, 0)]

/-- children (with remaining-sibling counters) of the members of a level, omitting those of the members
    whose emission position is marked in the skip schedule -/
def nextLevel (sk : Nat → Nat) : List (ITree β × Nat) → Nat → List (ITree β × Nat)
  | [], _ => []
  | tr :: rest, k =>
    (if sk k ≠ 0 then [] else (entries 0 tr.1.kids.childList).map (fun e => (e.2.1, e.2.2)))
      ++ nextLevel sk rest (k+1)

/-- level order with skips: `k` is the emission position of the first member of `level` -/
def refBfsLevels (sk : Nat → Nat) : Nat → Nat → List (ITree β × Nat) → Nat → List Item
  | 0, _, _, _ => []
  | fuel+1, d, level, k =>
    if level.isEmpty then [] else
    level.map (fun tr => ⟨d, tr.1.idx, tr.2⟩) ++
      refBfsLevels sk fuel (d+1) (nextLevel sk level k) (k + level.length)

def ITree.refBfs (sk : Nat → Nat) (t : ITree β) : List Item := refBfsLevels sk (t.size + 1) 0 [(t, 0)] 0

end AV
