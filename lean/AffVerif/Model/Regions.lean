import AffVerif.Model.Elim
import AffVerif.Model.Iter
/-!
# Path polytopes (`src/pwl/iter.rs`)

`PolyhedraGen` is `DfsPre` plus a stack of half-spaces: before a node is reported the stack is cut back to
the node's depth and the half-space of the edge from its parent is pushed.  The reference is the closed
path polytope of every node, computed by structural recursion.
-/
namespace AV
variable {α : Type} [Zero α] [One α] [Add α] [Mul α] [Neg α] [Sub α]

mutual
/-- reference: every node in pre-order with its depth, remaining-sibling counter and closed path half-spaces -/
def regionsT (t : PT α) (d r : Nat) (path : List (Aff α)) : List (Item × List (Aff α)) :=
  match t with
  | .node i c ks => (⟨d, i, r⟩, path) :: regionsK ks c.aff 0 (d+1) path
def regionsK (ks : PKids α) (a : Aff α) (l d : Nat) (path : List (Aff α)) : List (Item × List (Aff α)) :=
  match ks with
  | .nil => []
  | .cons none rest => regionsK rest a (l+1) d path
  | .cons (some t) rest => regionsT t d rest.count (path ++ [halfspace a l]) ++ regionsK rest a (l+1) d path
end

mutual
/-- reference stream of `polyhedra()` with skips: sub-trees of the items marked in `sk` are omitted; `k` is the
    position of the next reported item -/
def regionsSkipT (sk : Nat → Nat) (t : PT α) (d r : Nat) (path : List (Aff α)) (k : Nat) :
    List (Item × List (Aff α)) × Nat :=
  match t with
  | .node i c ks =>
    if sk k ≠ 0 then ([(⟨d, i, r⟩, path)], k+1)
    else
      let res := regionsSkipK sk ks c.aff 0 (d+1) path (k+1)
      ((⟨d, i, r⟩, path) :: res.1, res.2)
def regionsSkipK (sk : Nat → Nat) (ks : PKids α) (a : Aff α) (l d : Nat) (path : List (Aff α)) (k : Nat) :
    List (Item × List (Aff α)) × Nat :=
  match ks with
  | .nil => ([], k)
  | .cons none rest => regionsSkipK sk rest a (l+1) d path k
  | .cons (some t) rest =>
    let x := regionsSkipT sk t d rest.count (path ++ [halfspace a l]) k
    let y := regionsSkipK sk rest a (l+1) d path x.2
    (x.1 ++ y.1, y.2)
end

/-- the machine -/
structure PGen (α : Type) where
  preds : List (Aff α)
  iter : Dfs (Content α)
  lastDepth : Nat

def PGen.new (t : PT α) : PGen α := ⟨[], Dfs.new t t, 0⟩

/-- the predicate stack for the next reported node: cut back to the node's depth, then the half-space of the edge
    from its parent (looked up in the arena) is pushed -/
def PGen.predsNext (whole : PT α) (preds : List (Aff α)) (lastDepth : Nat) (it : Item) : List (Aff α) :=
  let preds1 := if it.depth ≤ lastDepth then preds.take (preds.length - (1 + lastDepth - it.depth)) else preds
  match whole.parentOf? it.idx with
  | some (p, l) =>
    match whole.find? p with
    | some pn => preds1 ++ [halfspace pn.val.aff l]
    | none => preds1
  | none => preds1

def PGen.next (whole : PT α) (g : PGen α) : Option ((Item × List (Aff α)) × PGen α) :=
  match g.iter.next with
  | none => none
  | some (it, it') =>
    let preds2 := PGen.predsNext whole g.preds g.lastDepth it
    some ((it, preds2), ⟨preds2, it', it.depth⟩)

def PGen.skip (g : PGen α) : PGen α := { g with iter := g.iter.skip }

def PGen.skipN : Nat → PGen α → PGen α
  | 0, g => g
  | n+1, g => PGen.skipN n g.skip

def PGen.run (whole : PT α) (sk : Nat → Nat) : Nat → PGen α → Nat → List (Item × List (Aff α))
  | 0, _, _ => []
  | fuel+1, g, k =>
    match g.next whole with
    | none => []
    | some (r, g') => r :: PGen.run whole sk fuel (PGen.skipN (sk k) g') (k+1)

end AV
