import AffVerif.Model.Compose
/-!
# Infeasible-path elimination (`src/pwl/impl_infeasible_elim.rs`, binary trees)

A depth-first sweep with the closed path polytope. For every non-root node whose cached state is
`Indeterminate`: `phase_inh` (parent witnesses that satisfy the new half-space), `phase_one` (the
`mirror_points` heuristic on the parent's witnesses), `phase_two` (LP `status()`; an "optimal" point that
fails `contains` is repaired with `mirror_points` or the node stays `Indeterminate`). Newly infeasible
children are removed after the sweep (never the last child of a decision); when the last sibling was not
short-circuited by a cached state the parent is replaced by its only feasible child if all other children
are infeasible (`forward_if_redundant`; at the root only the infeasible children are removed).

The LP backend and the float heuristic `mirror_points` are oracles threaded through a state `σ`.
-/
namespace AV
variable {α : Type} [Zero α] [One α] [Add α] [Mul α] [Neg α] [Sub α] [LE α] [DecidableLE α]

/-- `mirror_points(poly, points, n_iterations)` as an oracle: node index (for bookkeeping only), polytope,
    start points, iteration bound ↦ points found -/
abbrev MirrorOracle (σ α : Type) := σ → Nat → Aff α → List (List α) → Nat → Option (List (List α)) × σ

structure Oracles (σ α : Type) where
  lp : LPOracle σ α
  mirror : MirrorOracle σ α

/-- `phase_inh` -/
def phaseInh (tol : α) (parentState : NState α) (hyper : Aff α) : NState α :=
  match parentState with
  | .witness ws =>
    let inh := ws.filter (fun w => Poly.containsTol tol hyper w)
    if inh.isEmpty then .indeterminate else .witness inh
  | _ => .indeterminate

/-- `phase_one` -/
def phaseOne {σ : Type} (O : Oracles σ α) (s : σ) (node : Nat) (parentState : NState α) (poly : Aff α) :
    NState α × σ :=
  match parentState with
  | .witness ws =>
    match O.mirror s node poly ws 8 with
    | (some pts, s') => (.witness pts, s')
    | (none, s') => (.indeterminate, s')
  | _ => (.indeterminate, s)

/-- `phase_two` -/
def phaseTwo {σ : Type} (tol : α) (O : Oracles σ α) (s : σ) (node : Nat) (poly : Aff α) (n : Nat) :
    NState α × σ :=
  match O.lp s poly (zeros n) with
  | (.optimal sol, s1) =>
    if Poly.containsTol tol poly sol then (.witness [sol], s1)
    else
      match O.mirror s1 node poly [sol] 20 with
      | (some (p :: _), s2) => if Poly.containsTol tol poly p then (.witness [p], s2) else (.indeterminate, s2)
      | (_, s2) => (.indeterminate, s2)
  | (.infeasible, s1) => (.infeasible, s1)
  | (.unbounded, s1) => (.feasible, s1)
  | (.error, s1) => (.indeterminate, s1)

/-- the three phases for one node -/
def decideNode {σ : Type} (tol : α) (O : Oracles σ α) (s : σ) (node : Nat) (parentState : NState α)
    (path : List (Aff α)) (hyper : Aff α) (n : Nat) : NState α × σ :=
  let poly := Poly.intersectionN n (path ++ [hyper])
  match phaseInh tol parentState hyper with
  | .indeterminate =>
    match phaseOne O s node parentState poly with
    | (.indeterminate, s1) => phaseTwo tol O s1 node poly n
    | r => r
  | st => (st, s)

/-- result of sweeping the children of one node -/
structure KidsRes (σ α : Type) where
  kids : PKids α
  st : σ
  newInf : List Nat          -- labels of children that were found infeasible in this sweep
  lastFresh : Bool           -- the last existing child was `Indeterminate` on entry (`forward_if_redundant` runs when
                             -- that child is *visited*, right after the phases, before its sub-tree is swept)

/-- `forward_if_redundant` condition for a binary node: both children exist, one is marked infeasible and the other
    is not (feasible or still undecided: the sibling's region is empty, so the decision is redundant either way);
    returns the label of the surviving child -/
def forwardLabel? : PKids α → Option Nat
  | .cons (some a) (.cons (some b) .nil) =>
    if !a.val.state.isInfeasible && b.val.state.isInfeasible then some 0
    else if a.val.state.isInfeasible && !b.val.state.isInfeasible then some 1
    else none
  | _ => none

/-- deferred removal: drop the listed children in order, but never the last child of the node -/
def removeLabels : PKids α → List Nat → PKids α
  | ks, [] => ks
  | ks, l :: ls => if ks.count > 1 then removeLabels (ks.set l none) ls else removeLabels ks ls

mutual
/-- sweep below node `p`, whose own (final) state is `st`; `isRoot` disables the splice of `forward_if_redundant` -/
def elimNode {σ : Type} (tol : α) (O : Oracles σ α) (n : Nat) (isRoot : Bool) (path : List (Aff α))
    (st : NState α) : PT α → σ → PT α × σ
  | .node i c ks, s =>
    let c' : Content α := ⟨c.aff, st⟩
    let r := elimKids tol O n path c.aff st ks 0 s
    match (if r.lastFresh then forwardLabel? r.kids else none) with
    | some l =>
      if isRoot then
        -- the infeasible sibling is removed, the splice itself is refused (`RootNode`)
        (.node i c' (r.kids.set (1 - l) none), r.st)
      else
        match r.kids.get? l with
        | some ch => (ch, r.st)
        | none => (.node i c' r.kids, r.st)
    | none => (.node i c' (removeLabels r.kids r.newInf), r.st)
def elimKids {σ : Type} (tol : α) (O : Oracles σ α) (n : Nat) (path : List (Aff α))
    (paff : Aff α) (pst : NState α) : PKids α → Nat → σ → KidsRes σ α
  | .nil, _, s => ⟨.nil, s, [], false⟩
  | .cons none r, l, s =>
    let r' := elimKids tol O n path paff pst r (l+1) s
    ⟨.cons none r'.kids, r'.st, r'.newInf, r'.lastFresh⟩
  | .cons (some ch) r, l, s =>
    let hyper := halfspace paff l
    match ch.val.state with
    | .infeasible =>
      -- cached: skipped, not removed
      let r' := elimKids tol O n path paff pst r (l+1) s
      ⟨.cons (some ch) r'.kids, r'.st, r'.newInf, if r.count = 0 then false else r'.lastFresh⟩
    | .indeterminate =>
      let d := decideNode tol O s ch.idx pst path hyper n
      if d.1.isInfeasible then
        let r' := elimKids tol O n path paff pst r (l+1) d.2
        ⟨.cons (some (.node ch.idx ⟨ch.val.aff, d.1⟩ ch.kids)) r'.kids, r'.st, l :: r'.newInf,
         if r.count = 0 then true else r'.lastFresh⟩
      else
        let sub := elimNode tol O n false (path ++ [hyper]) d.1 ch d.2
        let r' := elimKids tol O n path paff pst r (l+1) sub.2
        ⟨.cons (some sub.1) r'.kids, r'.st, r'.newInf, if r.count = 0 then true else r'.lastFresh⟩
    | cached =>
      -- cached feasible: descend
      let sub := elimNode tol O n false (path ++ [hyper]) cached ch s
      let r' := elimKids tol O n path paff pst r (l+1) sub.2
      ⟨.cons (some sub.1) r'.kids, r'.st, r'.newInf, if r.count = 0 then false else r'.lastFresh⟩
end

/-- `infeasible_elimination` -/
def infeasibleElimination {σ : Type} (tol : α) (O : Oracles σ α) (n : Nat) (t : PT α) (s : σ) : PT α × σ :=
  elimNode tol O n true [] t.val.state t s

end AV
