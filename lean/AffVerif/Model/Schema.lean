import AffVerif.Model.PTree
/-!
# Predefined trees (`src/distill/schema.rs`, `AffTree::from_poly`, `from_slice`, `remove_axes`)

Every generator is modelled with the node indices the code produces (the arena is filled in insertion order
starting from an empty slab), so the judge compares structure, coefficients and indices exactly.
-/
namespace AV
variable {α : Type} [Zero α] [One α] [Add α] [Mul α] [Neg α] [Sub α]

namespace Sch

def leaf (i : Nat) (a : Aff α) : PT α := .node i (Content.new a) (IKids.empty 2)

def dec (i : Nat) (a : Aff α) (l0 l1 : Option (PT α)) : PT α :=
  .node i (Content.new a) (.cons l0 (.cons l1 .nil))

/-- the one-row predicate `c·x_r ≤ b` -/
def axisPred (n r : Nat) (c b : α) : Aff α := { mat := [unitVec n r c], bias := [b], indim := n }

/-- `zero_idx(n, r)` with `bias[r] = v`: sets component `r` to the constant `v` -/
def setConst (n r : Nat) (v : α) : Aff α := { (Aff.zeroIdx n r : Aff α) with bias := unitVec n r v }

/-- identity with component `r` replaced by `s·x_r + o` -/
def scaleShift (n r : Nat) (s o : α) : Aff α := { (Aff.diagIdx n r s : Aff α) with bias := unitVec n r o }

/-- `partial_ReLU(dim, row)` -/
def partialReLU (n r : Nat) : PT α :=
  dec 0 (Aff.unit n r) (some (leaf 1 (Aff.identity n))) (some (leaf 2 (Aff.zeroIdx n r)))

/-- `partial_leaky_ReLU(dim, row, alpha)` -/
def partialLeakyReLU (n r : Nat) (a : α) : PT α :=
  dec 0 (Aff.unit n r) (some (leaf 1 (Aff.identity n))) (some (leaf 2 (Aff.diagIdx n r a)))

/-- `partial_hard_tanh(dim, row, min, max)` -/
def partialHardTanh (n r : Nat) (lo hi : α) : PT α :=
  dec 0 (axisPred n r (-1) (-hi))
    (some (dec 1 (axisPred n r 1 lo) (some (leaf 3 (Aff.identity n))) (some (leaf 4 (setConst n r lo)))))
    (some (leaf 2 (setConst n r hi)))

/-- `partial_hard_shrink(dim, row, lambda)` -/
def partialHardShrink (n r : Nat) (lam : α) : PT α :=
  dec 0 (axisPred n r 1 lam)
    (some (leaf 1 (Aff.identity n)))
    (some (dec 2 (axisPred n r (-1) lam) (some (leaf 3 (Aff.identity n))) (some (leaf 4 (Aff.zeroIdx n r)))))

/-- `partial_hard_sigmoid(dim, row)`; `three`, `sixth`, `half` are the constants `3.`, `1./6.`, `0.5` of the code -/
def partialHardSigmoid (n r : Nat) (three sixth half : α) : PT α :=
  dec 0 (axisPred n r (-1) (-three))
    (some (dec 1 (axisPred n r 1 (-three))
      (some (leaf 3 (scaleShift n r sixth half))) (some (leaf 4 (setConst n r 0)))))
    (some (leaf 2 (setConst n r 1)))

/-- `partial_threshold(dim, row, threshold, value)` -/
def partialThreshold (n r : Nat) (thr v : α) : PT α :=
  dec 0 (axisPred n r 1 thr) (some (leaf 1 (Aff.identity n))) (some (leaf 2 (setConst n r v)))

/-- the tournament of `argmax`: node `idx` compares component `mf` against the current maximiser; children are
    allocated from `c`, the label-1 sub-tree is filled first (the code uses a LIFO work list) -/
def argmaxNode (n : Nat) (ofNat : Nat → α) : Nat → Nat → Aff α → Nat → Nat → Nat → PT α × Nat
  | 0, idx, aff, mf, mt, c =>
    (dec idx aff (some (leaf c (Aff.constant n (ofNat mf)))) (some (leaf (c+1) (Aff.constant n (ofNat mt)))), c+2)
  | fuel+1, idx, aff, mf, mt, c =>
    if mf + 1 < n then
      let t1 := argmaxNode n ofNat fuel (c+1) (Aff.subtraction n (mf+1) mt) (mf+1) mt (c+2)
      let t0 := argmaxNode n ofNat fuel c (Aff.subtraction n (mf+1) mf) (mf+1) mf t1.2
      (dec idx aff (some t0.1) (some t1.1), t0.2)
    else
      (dec idx aff (some (leaf c (Aff.constant n (ofNat mf)))) (some (leaf (c+1) (Aff.constant n (ofNat mt)))), c+2)

/-- `argmax(dim)` for `dim ≥ 2` -/
def argmax (n : Nat) (ofNat : Nat → α) : PT α :=
  (argmaxNode n ofNat n 0 (Aff.subtraction n 1 0) 1 0 1).1

/-- a chain of one-row decisions: label 1 continues, label 0 ends in `falseLeaf` (if any);
    after the last row label 1 ends in `final1` -/
def chainNode (falseLeaf : Option (Aff α)) (final1 : Aff α) : Nat → Aff α → List (Aff α) → Nat → PT α
  | idx, row, [], c =>
    match falseLeaf with
    | some a => dec idx row (some (leaf c a)) (some (leaf (c+1) final1))
    | none => dec idx row none (some (leaf c final1))
  | idx, row, r :: rs, c =>
    match falseLeaf with
    | some a => dec idx row (some (leaf c a)) (some (chainNode falseLeaf final1 (c+1) r rs (c+2)))
    | none => dec idx row none (some (chainNode falseLeaf final1 c r rs (c+1)))

/-- `class_characterization(dim, clazz)` for `dim ≥ 2`, `clazz < dim` -/
def classChar (n clazz : Nat) : PT α :=
  match ((List.range n).filter (· ≠ clazz)).map (fun i => (Aff.subtraction n i clazz : Aff α)) with
  | [] => leaf 0 (Aff.constant n 1)
  | r :: rs => chainNode (some (Aff.constant n 0)) (Aff.constant n 1) 0 r rs 1

/-- `inf_norm(dim, min, max)` (at least one bound given, `dim ≥ 1`) -/
def infNorm (n : Nat) (lo hi : Option α) : PT α :=
  let loRows : List (Aff α) := match lo with
    | some l => (List.range n).map (fun i => axisPred n i (-1) (-l))
    | none => []
  let hiRows : List (Aff α) := match hi with
    | some h => (List.range n).map (fun i => axisPred n i 1 h)
    | none => []
  match loRows ++ hiRows with
  | [] => leaf 0 (Aff.constant n 1)
  | r :: rs => chainNode (some (Aff.constant n 0)) (Aff.constant n 1) 0 r rs 1

/-- `AffTree::from_poly(poly, func_true, func_false)` (`poly` has at least one row) -/
def fromPoly (p : Aff α) (fTrue : Aff α) (fFalse : Option (Aff α)) : PT α :=
  match (List.range p.mat.length).map (fun i => p.row i) with
  | [] => leaf 0 fTrue
  | r :: rs => chainNode fFalse fTrue 0 r rs 1

mutual
/-- `remove_axes(mask)`: keep the columns where `mask` holds, reset every cached state -/
def removeAxes (keep : List Nat) : PT α → PT α
  | .node i c ks =>
    .node i ⟨{ mat := c.aff.mat.map (fun r => keep.map (fun j => r.getD j 0)), bias := c.aff.bias, indim := keep.length },
             .indeterminate⟩ (removeAxesK keep ks)
def removeAxesK (keep : List Nat) : PKids α → PKids α
  | .nil => .nil
  | .cons none r => .cons none (removeAxesK keep r)
  | .cons (some t) r => .cons (some (removeAxes keep t)) (removeAxesK keep r)
end

end Sch
end AV
