import AffVerif.Model.PTree
/-!
# Composition and lifted arithmetic (`src/pwl/impl_composition.rs`, `src/pwl/impl_ops.rs`)

`f.compose(g)` grafts, below every terminal `t` of `f`, a copy of `g` whose maps are updated by the
schema (`update_decision` / `update_terminal` with `t`'s map as context); the node of `t` is reused for
the copy of `g`'s root and keeps its cached state.  With pruning every freshly added child is tested
with `is_edge_feasible`; infeasible ones are removed (unless none is feasible) and a parent with exactly
one surviving child out of `K` attempted ones is replaced by that child.
-/
namespace AV

variable {α : Type} [Zero α] [One α] [Add α] [Mul α] [Neg α] [Sub α]

/-- `CompositionSchema`: `original` is the node of the operand that is copied, `context` the terminal
    it is grafted under -/
structure Schema (α : Type) where
  updDecision : Aff α → Aff α → Aff α
  updTerminal : Aff α → Aff α → Aff α

def Schema.upd (S : Schema α) (isLeaf : Bool) (orig ctx : Aff α) : Aff α :=
  if isLeaf then S.updTerminal orig ctx else S.updDecision orig ctx

/-- `FunctionComposition` -/
def Schema.compose : Schema α := ⟨fun o c => o.updDecision c, fun o c => o.compose c⟩

/-- the arithmetic schemas: decisions are copied, terminals combined as `context op original` -/
def Schema.arith (op : Aff α → Aff α → Aff α) : Schema α := ⟨fun o _ => o, fun o c => op c o⟩

/-! ### without pruning -/

mutual
/-- copy of (a sub-tree of) `g` with every map updated against the terminal map `t`; new nodes get
    the indices `c, c+1, …` in pre-order and the state `Indeterminate` -/
def PT.graft (S : Schema α) : PT α → Aff α → Nat → PT α × Nat
  | .node _ gc kids, t, c =>
    let r := PKids.graft S kids t (c+1)
    (.node c (Content.new (S.upd kids.allNone gc.aff t)) r.1, r.2)
def PKids.graft (S : Schema α) : PKids α → Aff α → Nat → PKids α × Nat
  | .nil, _, c => (.nil, c)
  | .cons none r, t, c => let r' := PKids.graft S r t c; (.cons none r'.1, r'.2)
  | .cons (some k) r, t, c =>
    let k' := PT.graft S k t c
    let r' := PKids.graft S r t k'.2
    (.cons (some k'.1) r'.1, r'.2)
end

mutual
/-- `f.compose::<false>(g)` (and the un-pruned lifting of a binary operator): below every terminal of
    `f` graft `g`; the terminal's node (index, state) is reused for `g`'s root -/
def PT.composeS (S : Schema α) : PT α → PT α → Nat → PT α × Nat
  | .node i fc kids, g, c =>
    if kids.allNone then
      match g with
      | .node _ gc gkids =>
        let r := PKids.graft S gkids fc.aff c
        (.node i ⟨S.upd gkids.allNone gc.aff fc.aff, fc.state⟩ r.1, r.2)
    else
      let r := PKids.composeS S kids g c
      (.node i fc r.1, r.2)
def PKids.composeS (S : Schema α) : PKids α → PT α → Nat → PKids α × Nat
  | .nil, _, c => (.nil, c)
  | .cons none r, g, c => let r' := PKids.composeS S r g c; (.cons none r'.1, r'.2)
  | .cons (some k) r, g, c =>
    let k' := PT.composeS S k g c
    let r' := PKids.composeS S r g k'.2
    (.cons (some k'.1) r'.1, r'.2)
end

/-- a counter above every index of `t` -/
def PT.freshBase (t : PT α) : Nat := t.indices.foldl (fun m i => max m (i+1)) 0

def PT.compose (f g : PT α) : PT α := (PT.composeS Schema.compose f g (PT.freshBase f)).1

/-! ### LP oracle and `is_edge_feasible` -/

/-- `PolytopeStatus` -/
inductive LPAnswer (α : Type) where
  | infeasible
  | unbounded
  | optimal (x : List α)
  | error
deriving DecidableEq, Repr

/-- the LP backend as a state-threaded oracle: polytope, objective ↦ answer -/
abbrev LPOracle (σ α : Type) := σ → Aff α → List α → LPAnswer α × σ

/-- the closed half-space of a decision for a label (`factor` = ±1 in `PolyhedraGen::next` and
    `polyhedral_path_characterization`; only labels 0 and 1 are supported there) -/
def halfspace (d : Aff α) (label : Nat) : Aff α :=
  if label = 1 then d else { mat := matNeg d.mat, bias := vneg d.bias, indim := d.indim }

section prune
variable [LE α] [DecidableLE α]

/-- what `is_edge_feasible(parent, child)` looks at -/
structure EdgeCtx (α : Type) where
  parentIsZero : Bool            -- `parent_idx == 0`
  childState : NState α
  parentState : NState α
  path : List (Aff α)            -- half-spaces of the path, root first, including the new edge
  indim : Nat

/-- `is_edge_feasible` -/
def isEdgeFeasible {σ : Type} (tol : α) (lp : LPOracle σ α) (s : σ) (e : EdgeCtx α) : Bool × σ :=
  if e.parentIsZero then (true, s) else
  match e.childState with
  | .infeasible => (false, s)
  | .feasible => (true, s)
  | .witness _ => (true, s)
  | .indeterminate =>
    let poly := Poly.intersectionN e.indim e.path
    let viaLP : Bool × σ :=
      match lp s poly (zeros e.indim) with
      | (.infeasible, s') => (false, s')
      | (_, s') => (true, s')
    match e.parentState with
    | .infeasible => (false, s)
    | .witness ws => if ws.any (fun w => Poly.containsTol tol poly w) then (true, s) else viaLP
    | _ => viaLP

/-- the `explore` filter of a schema: edge context ↦ keep? -/
abbrev Explore (σ α : Type) := σ → EdgeCtx α → Bool × σ

/-- first pass over the children of a copied node: one flag per slot (`false` for an empty slot) -/
def exploreKids {σ : Type} (ex : Explore σ α) (pz : Bool) (pst : NState α) (path : List (Aff α))
    (paff : Aff α) (n : Nat) : PKids α → Nat → σ → List Bool × σ
  | .nil, _, s => ([], s)
  | .cons none r, l, s =>
    let r' := exploreKids ex pz pst path paff n r (l+1) s
    (false :: r'.1, r'.2)
  | .cons (some _) r, l, s =>
    let b := ex s ⟨pz, .indeterminate, pst, path ++ [halfspace paff l], n⟩
    let r' := exploreKids ex pz pst path paff n r (l+1) b.2
    (b.1 :: r'.1, r'.2)

def countTrue : List Bool → Nat
  | [] => 0
  | true :: r => countTrue r + 1
  | false :: r => countTrue r

/-- the only child of a slot list, if there is exactly one -/
def IKids.sole? {β : Type} (ks : IKids β) : Option (ITree β) :=
  match ks.existing with
  | [(_, t)] => some t
  | _ => none

mutual
/-- the copy of the node `gnode` of `g` (its map already updated to `aff'`, stored under index `idx`
    with state `st`) together with the pruned copies of its children -/
def PT.graftP {σ : Type} (S : Schema α) (ex : Explore σ α) (t : Aff α) (n : Nat)
    (idx : Nat) (st : NState α) (pz : Bool) (path : List (Aff α)) :
    PT α → σ → Nat → PT α × σ × Nat
  | .node _ gc gk, s, c =>
    let aff' := S.upd gk.allNone gc.aff t
    let fl := exploreKids ex pz st path aff' n gk 0 s
    let created := countTrue fl.1
    let skipped := gk.count - created
    if created = 0 then
      -- no branch judged feasible: keep all of them
      let r := PKids.graftP S ex t n aff' path true [] gk 0 fl.2 c
      (.node idx ⟨aff', st⟩ r.1, r.2.1, r.2.2)
    else if created = 1 ∧ created + skipped = gk.length then
      -- forward: the node is replaced by its only surviving child, whose path no longer
      -- contains this decision
      let r := PKids.graftP S ex t n aff' path false fl.1 gk 0 fl.2 c
      match IKids.sole? r.1 with
      | some ch => (ch, r.2.1, r.2.2)
      | none => (.node idx ⟨aff', st⟩ r.1, r.2.1, r.2.2)
    else
      let r := PKids.graftP S ex t n aff' path true fl.1 gk 0 fl.2 c
      (.node idx ⟨aff', st⟩ r.1, r.2.1, r.2.2)
/-- children of a copied node; `flags = []` means "keep all"; `ext` says whether the children's path
    is extended by the parent's half-space (not when the parent is forwarded) -/
def PKids.graftP {σ : Type} (S : Schema α) (ex : Explore σ α) (t : Aff α) (n : Nat)
    (paff : Aff α) (path : List (Aff α)) (ext : Bool) :
    List Bool → PKids α → Nat → σ → Nat → PKids α × σ × Nat
  | _, .nil, _, s, c => (.nil, s, c)
  | fl, .cons none r, l, s, c =>
    let r' := PKids.graftP S ex t n paff path ext fl.tail r (l+1) s c
    (.cons none r'.1, r'.2.1, r'.2.2)
  | fl, .cons (some k) r, l, s, c =>
    if fl.headD true then
      let k' := PT.graftP S ex t n c .indeterminate false
                  (if ext then path ++ [halfspace paff l] else path) k s (c+1)
      let r' := PKids.graftP S ex t n paff path ext fl.tail r (l+1) k'.2.1 k'.2.2
      (.cons (some k'.1) r'.1, r'.2.1, r'.2.2)
    else
      let r' := PKids.graftP S ex t n paff path ext fl.tail r (l+1) s c
      (.cons none r'.1, r'.2.1, r'.2.2)
end

mutual
/-- pruned composition: walk `f` keeping the closed path polytopes, graft `g` below every terminal -/
def PT.composeP {σ : Type} (S : Schema α) (ex : Explore σ α) (n : Nat) (path : List (Aff α)) :
    PT α → PT α → σ → Nat → PT α × σ × Nat
  | .node i fc kids, g, s, c =>
    if kids.allNone then
      PT.graftP S ex fc.aff n i fc.state (i == 0) path g s c
    else
      let r := PKids.composeP S ex n path fc.aff kids 0 g s c
      (.node i fc r.1, r.2.1, r.2.2)
def PKids.composeP {σ : Type} (S : Schema α) (ex : Explore σ α) (n : Nat) (path : List (Aff α))
    (paff : Aff α) : PKids α → Nat → PT α → σ → Nat → PKids α × σ × Nat
  | .nil, _, _, s, c => (.nil, s, c)
  | .cons none r, l, g, s, c =>
    let r' := PKids.composeP S ex n path paff r (l+1) g s c
    (.cons none r'.1, r'.2.1, r'.2.2)
  | .cons (some k) r, l, g, s, c =>
    let k' := PT.composeP S ex n (path ++ [halfspace paff l]) k g s c
    let r' := PKids.composeP S ex n path paff r (l+1) g k'.2.1 k'.2.2
    (.cons (some k'.1) r'.1, r'.2.1, r'.2.2)
end

end prune
end AV
