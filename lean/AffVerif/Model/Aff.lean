import AffVerif.Model.Vec
/-!
# Affine functions / polytopes (`src/linalg/affine.rs`, `src/linalg/impl_ops.rs`)

One structure `(mat, bias)`, read either as `x ↦ mat·x + bias` or as `{x | mat·x ≤ bias}`.
`indim` is stored explicitly because a matrix with no rows still has a column count in the code.
-/
namespace AV

variable {α : Type} [Zero α] [One α] [Add α] [Mul α] [Neg α] [Sub α]

structure Aff (α : Type) where
  mat : Mat α
  bias : List α
  indim : Nat
deriving DecidableEq, Repr

namespace Aff

def outdim (f : Aff α) : Nat := f.mat.length

/-- well-formedness: every row has `indim` entries and there is one bias entry per row
    (`from_mats` asserts the second part, ndarray guarantees the first) -/
def WF (f : Aff α) : Prop := (∀ r ∈ f.mat, r.length = f.indim) ∧ f.bias.length = f.mat.length

def wfb (f : Aff α) : Bool := f.mat.all (fun r => r.length == f.indim) && f.bias.length == f.mat.length

/-- `AffFunc::apply`: `mat·x + bias` -/
def apply (f : Aff α) (x : List α) : List α := vadd (matVec f.mat x) f.bias

/-- `AffFunc::apply_transpose`: `matᵀ·(x − bias)` -/
def applyTranspose (f : Aff α) (x : List α) : List α :=
  matVec (transpose f.indim f.mat) (vsub x f.bias)

/-- `f.compose(g) = f ∘ g` (`AffFunc::compose`; asserts `f.indim = g.outdim`) -/
def compose (f g : Aff α) : Aff α :=
  { mat := matMul g.indim f.mat g.mat, bias := f.apply g.bias, indim := g.indim }

/-- `FunctionComposition::update_decision`: the predicate `A (M x + c) ≤ b` as `A M x ≤ b − A c` -/
def updDecision (d t : Aff α) : Aff α :=
  { mat := matMul t.indim d.mat t.mat, bias := vadd (vneg (matVec d.mat t.bias)) d.bias, indim := t.indim }

/-- `AffFunc::stack` (asserts equal `indim`) -/
def stack (f g : Aff α) : Aff α :=
  { mat := f.mat ++ g.mat, bias := f.bias ++ g.bias, indim := f.indim }

def neg (f : Aff α) : Aff α := { mat := matNeg f.mat, bias := vneg f.bias, indim := f.indim }

/-- coefficient-wise binary operators of `impl_ops.rs` -/
def zipWith (op : α → α → α) (f g : Aff α) : Aff α :=
  { mat := matZip (fun a b => List.zipWith op a b) f.mat g.mat
    bias := List.zipWith op f.bias g.bias
    indim := f.indim }

def add (f g : Aff α) : Aff α := { mat := matZip vadd f.mat g.mat, bias := vadd f.bias g.bias, indim := f.indim }
def sub (f g : Aff α) : Aff α := { mat := matZip vsub f.mat g.mat, bias := vsub f.bias g.bias, indim := f.indim }
def mul (f g : Aff α) : Aff α := { mat := matZip vmul f.mat g.mat, bias := vmul f.bias g.bias, indim := f.indim }

/-- `row(i)` as a 1-row function -/
def row (f : Aff α) (i : Nat) : Aff α :=
  { mat := [f.mat.getD i []], bias := [f.bias.getD i 0], indim := f.indim }

/-- rows paired with their bias -/
def rows (f : Aff α) : List (List α × α) := f.mat.zip f.bias

def ofRows (n : Nat) (rs : List (List α × α)) : Aff α :=
  { mat := rs.map (·.1), bias := rs.map (·.2), indim := n }

/-- drop the rows whose position is in `idxs` -/
def removeRowsAux : Nat → List Nat → List (List α × α) → List (List α × α)
  | _, _, [] => []
  | i, idxs, r :: rs => if idxs.contains i then removeRowsAux (i+1) idxs rs else r :: removeRowsAux (i+1) idxs rs

def removeRows (f : Aff α) (idxs : List Nat) : Aff α := ofRows f.indim (removeRowsAux 0 idxs f.rows)

def removeZeroRows [DecidableEq α] (f : Aff α) : Aff α :=
  ofRows f.indim (f.rows.filter (fun r => !(isZeroVec r.1 && r.2 == 0)))

/-- keep the columns that have a non-zero entry -/
def removeZeroColumns [DecidableEq α] (f : Aff α) : Aff α :=
  let cols := (List.range f.indim).filter (fun j => f.mat.any (fun r => !(r.getD j 0 == 0)))
  { mat := f.mat.map (fun r => cols.map (fun j => r.getD j 0)), bias := f.bias, indim := cols.length }

/-! ### named constructors -/

def identity (n : Nat) : Aff α := { mat := eye n, bias := zeros n, indim := n }
def zerosF (n : Nat) : Aff α := { mat := zeroMat n n, bias := zeros n, indim := n }
def constant (n : Nat) (v : α) : Aff α := { mat := [zeros n], bias := [v], indim := n }
def unit (n i : Nat) : Aff α := { mat := [unitVec n i 1], bias := [0], indim := n }
/-- identity with the `i`-th diagonal entry replaced by `c` (`zero_idx` is `c = 0`) -/
def diagIdx (n i : Nat) (c : α) : Aff α :=
  { mat := (List.range n).map (fun k => unitVec n k (if k = i then c else 1)), bias := zeros n, indim := n }
def zeroIdx (n i : Nat) : Aff α := diagIdx n i 0
def sum (n : Nat) : Aff α := { mat := [ones n], bias := [0], indim := n }
def subtraction (n l r : Nat) : Aff α :=
  { mat := [(List.range n).map (fun j => if j = r then (-1 : α) else if j = l then 1 else 0)], bias := [0], indim := n }
def rotation (n : Nat) (R : Mat α) : Aff α := { mat := R, bias := zeros n, indim := n }
def scaling (s : List α) : Aff α := { mat := diag s, bias := zeros s.length, indim := s.length }
def uniformScaling (n : Nat) (c : α) : Aff α := scaling (List.replicate n c)
/-- `slice`: `none` (NaN in the code) keeps the axis, `some v` fixes it to `v` -/
def slice (ref : List (Option α)) : Aff α :=
  { mat := diag (ref.map (fun o => match o with | none => (1 : α) | some _ => 0))
    bias := ref.map (fun o => match o with | none => (0 : α) | some v => v)
    indim := ref.length }
def translation (n : Nat) (off : List α) : Aff α := { mat := eye n, bias := off, indim := n }

/-- set entry `(i,j)` of the matrix -/
def setMat (f : Aff α) (i j : Nat) (v : α) : Aff α :=
  { f with mat := f.mat.set i ((f.mat.getD i []).set j v) }
def setBias (f : Aff α) (i : Nat) (v : α) : Aff α := { f with bias := f.bias.set i v }

end Aff

/-! ### polytope reading -/

namespace Poly
variable [LE α] [DecidableLE α]

/-- `distance_raw`: `bias − mat·x` -/
def distanceRaw (p : Aff α) (x : List α) : List α := vsub p.bias (matVec p.mat x)

/-- `contains` with the slack of the code (`tol = 1e-8`): every `bias − mat·x ≥ −tol` -/
def containsTol (tol : α) (p : Aff α) (x : List α) : Bool :=
  (distanceRaw p x).all (fun d => decide (-tol ≤ d))

/-- exact membership `mat·x ≤ bias` -/
def Mem (p : Aff α) (x : List α) : Prop := ∀ rb ∈ p.rows, dot rb.1 x ≤ rb.2

def memb (p : Aff α) (x : List α) : Bool := p.rows.all (fun rb => decide (dot rb.1 x ≤ rb.2))

def unbounded (n : Nat) : Aff α := { mat := [zeros n], bias := [1], indim := n }
def empty (n : Nat) : Aff α := { mat := [zeros n], bias := [-1], indim := n }

def translate (p : Aff α) (d : List α) : Aff α := { p with bias := vadd p.bias (matVec p.mat d) }

def intersection (p q : Aff α) : Aff α := { mat := p.mat ++ q.mat, bias := p.bias ++ q.bias, indim := p.indim }

/-- `intersection_n`: all rows of all operands (every `Polytope` has one bias entry per row, so
    concatenating the matrices and the biases is concatenating the rows) -/
def intersectionN (n : Nat) (ps : List (Aff α)) : Aff α :=
  if ps.isEmpty then unbounded n
  else Aff.ofRows n (ps.flatMap Aff.rows)

/-- `apply_pre`: `{x | f x ∈ P}` -/
def applyPre (p f : Aff α) : Aff α :=
  { mat := matMul f.indim p.mat f.mat, bias := vadd (vneg (matVec p.mat f.bias)) p.bias, indim := f.indim }

/-- `apply_post(inv, c)`: the image of `P` under `x ↦ inv⁻¹ x + c`; `inv` has `n` columns -/
def applyPost (p : Aff α) (n : Nat) (inv : Mat α) (c : List α) : Aff α :=
  { mat := matMul n p.mat inv, bias := vadd (matVec p.mat (matVec inv c)) p.bias, indim := n }

def rotate (p : Aff α) (R : Mat α) : Aff α := applyPost p p.indim (transpose p.indim R) (zeros p.indim)

def hypercube (n : Nat) (r : α) : Aff α :=
  { mat := eye n ++ matNeg (eye n), bias := List.replicate (2*n) r, indim := n }

/-- two rows for one axis: lower bound then upper bound; `none` = infinite -/
def axisRows (n axis : Nat) (lo hi : Option α) : List (List α × α) :=
  [ (match lo with | none => (zeros n, (1 : α)) | some l => (unitVec n axis (-1), -l)),
    (match hi with | none => (zeros n, (1 : α)) | some h => (unitVec n axis 1, h)) ]

def axisBounds (n axis : Nat) (lo hi : Option α) : Aff α := Aff.ofRows n (axisRows n axis lo hi)

def hyperrectangleAux (n : Nat) : Nat → List (Option α × Option α) → List (List α × α)
  | _, [] => []
  | i, (lo, hi) :: rest => axisRows n i lo hi ++ hyperrectangleAux n (i+1) rest

def hyperrectangle (ivs : List (Option α × Option α)) : Aff α :=
  Aff.ofRows ivs.length (hyperrectangleAux ivs.length 0 ivs)

/-- `cross_polytope`: row `i` has `−1` at column `j` iff bit `j` of `i` is set -/
def crossPolytope (n : Nat) : Aff α :=
  { mat := (List.range (2^n)).map (fun i => (List.range n).map (fun j => if i / 2^j % 2 = 1 then (-1 : α) else 1))
    bias := ones (2^n), indim := n }

/-- `from_normal(N, P)`: rows `−nᵢ·x ≤ −nᵢ·pᵢ` -/
def fromNormal (n : Nat) (N P : Mat α) : Aff α :=
  { mat := matNeg N, bias := vneg (List.zipWith dot N P), indim := n }

/-- `simplex(n)` with `s` standing for `sqrt(n+1)` -/
def simplex (n : Nat) (nn s : α) : Aff α :=
  let dist : α := -(1 + s + nn)
  { mat := (List.range (n+1)).map (fun i => (List.range n).map (fun j => if i = j then 1 + dist else 1))
    bias := ones (n+1), indim := n }

/-- `remove_tautologies` -/
def removeTautologies [DecidableEq α] (p : Aff α) : Aff α :=
  if p.rows.any (fun rb => isZeroVec rb.1 && !decide (0 ≤ rb.2)) then empty p.indim
  else
    let keep := p.rows.filter (fun rb => !isZeroVec rb.1)
    if keep.isEmpty then unbounded p.indim else Aff.ofRows p.indim keep

/-- `r` is a positive multiple of `r'` (row with its bias): what "equal after `normalize`" means in exact arithmetic.
    A row with zero normal is a multiple of nothing (its norm is 0 and the code's quotient is not a number). -/
def posMultiple [DecidableEq α] [Div α] (r r' : List α × α) : Bool :=
  match (r.1.zip r'.1).find? (fun p => !(p.2 == 0)) with
  | none => false
  | some (a, a') =>
    let c := a / a'
    !decide (c ≤ 0) && r.1 == smul c r'.1 && r.2 == c * r'.2

/-- rows are dropped when an *earlier* row (dropped or not) is equivalent -/
def dedupAux (eqv : List α × α → List α × α → Bool) :
    List (List α × α) → List (List α × α) → List (List α × α)
  | _, [] => []
  | seen, r :: rs =>
    if seen.any (eqv r) then dedupAux eqv (seen ++ [r]) rs else r :: dedupAux eqv (seen ++ [r]) rs

def absV (a : α) : α := if 0 ≤ a then a else -a
def maxV (a b : α) : α := if a ≤ b then b else a

/-- `relative_eq(a, b, epsilon = eps, max_relative = eps)` of the `approx` crate -/
def relEq (eps a b : α) : Bool :=
  decide (absV (a - b) ≤ eps) || decide (absV (a - b) ≤ maxV (absV a) (absV b) * eps)

/-- the comparison inside `remove_duplicate_rows`: `normalize` divides a row by its norm only when the norm exceeds
    `eps`; two normalised rows are compared as directions (exactly: positive multiples — the code compares rounded
    quotients), two rows that were left alone entry by entry with `relative_eq`, and a normalised row never equals one
    that was left alone (one of them has an entry of size ≥ 1/√n, the other only entries ≤ eps) -/
def dupEqv [DecidableEq α] [Div α] (eps : α) (r r' : List α × α) : Bool :=
  let big := !decide (dot r.1 r.1 ≤ eps * eps)
  let big' := !decide (dot r'.1 r'.1 ≤ eps * eps)
  if big && big' then posMultiple r r'
  else if !big && !big' then
    r.1.length == r'.1.length && (r.1.zip r'.1).all (fun p => relEq eps p.1 p.2) && relEq eps r.2 r'.2
  else false

/-- `remove_duplicate_rows`; `eps` is `f64::EPSILON` in the code, `0` is the exact comparison -/
def removeDuplicateRows [DecidableEq α] [Div α] (eps : α) (p : Aff α) : Aff α :=
  Aff.ofRows p.indim (dedupAux (dupEqv eps) [] p.rows)

/-- the four `PolyRepr` conversions -/
inductive PRepr | leqBias | biasLeqZero | geqBias | biasGeqZero
deriving DecidableEq

def convertTo (p : Aff α) : PRepr → Aff α
  | .leqBias => p
  | .biasLeqZero => { p with bias := vneg p.bias }
  | .geqBias => { p with mat := matNeg p.mat, bias := vneg p.bias }
  | .biasGeqZero => { p with mat := matNeg p.mat }

/-- `chebyshev_center` with the row norms supplied -/
def chebyshev (p : Aff α) (norms : List α) : Aff α × List α :=
  let radius : List α := zeros p.indim ++ [-1]
  ({ mat := (List.zipWith (fun r nr => r ++ [nr]) p.mat norms) ++ [radius]
     bias := p.bias ++ [0], indim := p.indim + 1 }, radius)

end Poly
end AV
