/-!
# Running mean / variance behind `Tree::depth_stats` (`average::Variance`, Welford's update)

`depth_stats` feeds the depths of the terminals (in traversal order) to `average::{Min, Max, Variance}`.  `Variance`
keeps the number of samples, the running mean and the running sum of squared deviations and updates them per sample as

    n += 1;  delta_n = (sample - mean) / n;  mean += delta_n;  sum_2 += delta_n * delta_n * n * (n - 1)

and reports `mean` and `sum_2 / (n - 1)` (sample variance; NaN below two samples).  Generic over the scalar type.
-/
namespace AV
variable {α : Type} [Zero α] [One α] [Add α] [Sub α] [Mul α] [Div α]

structure Welford (α : Type) where
  n : α
  mean : α
  sum2 : α

def Welford.new : Welford α := ⟨0, 0, 0⟩

/-- `Variance::add(sample)` -/
def Welford.add (w : Welford α) (x : α) : Welford α :=
  let n := w.n + 1
  let d := (x - w.mean) / n
  ⟨n, w.mean + d, w.sum2 + d * d * n * (n - 1)⟩

def Welford.run (xs : List α) : Welford α := xs.foldl Welford.add Welford.new

/-- `(var.mean(), var.sample_variance())` for at least two samples -/
def Welford.meanVar (xs : List α) : α × α :=
  let w := Welford.run xs
  (w.mean, w.sum2 / (w.n - 1))

end AV
