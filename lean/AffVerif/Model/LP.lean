import AffVerif.Model.Compose
/-!
# LP layer (`src/linalg/polyhedron.rs`)

`solve_linprog` hands `{x | A x ≤ b}` and an objective to the backend (an oracle here) and maps its result to
`PolytopeStatus`; `status()` is the zero objective; `remove_redundant_row_constraints` asks one LP per row.
-/
namespace AV
variable {α : Type} [Zero α] [One α] [Add α] [Mul α] [Neg α] [Sub α] [LE α] [DecidableLE α]

/-- `status()` -/
def Poly.status {σ : Type} (lp : LPOracle σ α) (s : σ) (p : Aff α) : LPAnswer α × σ := lp s p (zeros p.indim)

/-- `is_feasible()`; `none` = the call panics (solver error) -/
def Poly.isFeasible {σ : Type} (lp : LPOracle σ α) (s : σ) (p : Aff α) : Option Bool × σ :=
  match Poly.status lp s p with
  | (.infeasible, s') => (some false, s')
  | (.optimal _, s') => (some true, s')
  | (.unbounded, s') => (some true, s')
  | (.error, s') => (none, s')

/-- result of `remove_redundant_row_constraints` -/
inductive RedResult (α : Type) where
  | ok (p : Aff α)
  | err

/-- the loop of `remove_redundant_row_constraints` over the row indices `idxs` (descending);
    `eps` is `f64::EPSILON` -/
def removeRedundantLoop {σ : Type} (eps : α) (lp : LPOracle σ α) (p : Aff α) :
    List Nat → List Nat → σ → RedResult α × σ
  | [], red, s => (.ok (p.removeRows red), s)
  | i :: rest, red, s =>
    let q := p.removeRows (i :: red)
    let row := p.mat.getD i []
    let bound := p.bias.getD i 0
    match lp s q (vneg row) with
    | (.optimal x, s') =>
      if dot row x ≤ bound + eps then removeRedundantLoop eps lp p rest (i :: red) s'
      else removeRedundantLoop eps lp p rest red s'
    | (.unbounded, s') => removeRedundantLoop eps lp p rest red s'
    | (.infeasible, s') => (.ok (Poly.empty p.indim), s')
    | (.error, s') => (.err, s')

def Poly.removeRedundant {σ : Type} (eps : α) (lp : LPOracle σ α) (p : Aff α) (s : σ) : RedResult α × σ :=
  removeRedundantLoop eps lp p (List.range p.mat.length).reverse [] s

end AV
