import AffVerif.Model.Distill
/-!
# Architecture shape tracking and the npz layer dialect (`src/distill/arch.rs`, `read_layers` in `builder.rs`)
-/
namespace AV
variable {α : Type}

inductive ShapeErr | dim | index
deriving DecidableEq, Repr

/-- `Architecture` with `TensorShape::Flat` shapes as plain numbers -/
structure Arch (α : Type) where
  inputShape : Nat
  currentShape : Nat
  ops : List (Layer α × Nat)

def Arch.new (n : Nat) : Arch α := ⟨n, n, []⟩

def Arch.linear (A : Arch α) (a : Aff α) : Except ShapeErr (Arch α) :=
  if A.currentShape = a.indim then
    .ok { A with currentShape := a.outdim, ops := A.ops ++ [(.linear a, a.outdim)] }
  else .error .dim

/-- `partial_relu(idx)` and its siblings -/
def Arch.partialAct (A : Arch α) (mk : Nat → Layer α) (idx : Nat) : Except ShapeErr (Arch α) :=
  if idx < A.currentShape then .ok { A with ops := A.ops ++ [(mk idx, A.currentShape)] }
  else .error .index

/-- `relu()` and its siblings: one entry per neuron -/
def Arch.fullAct (A : Arch α) (mk : Nat → Layer α) : Arch α :=
  { A with ops := A.ops ++ (List.range A.currentShape).map (fun i => (mk i, A.currentShape)) }

def Arch.argmax (A : Arch α) : Except ShapeErr (Arch α) :=
  if A.currentShape < 2 then .error .dim
  else .ok { A with currentShape := 1, ops := A.ops ++ [(.argmax, 1)] }

/-- `extract_range(start, end)` -/
def Arch.extractRange (A : Arch α) (s e : Nat) : Except ShapeErr (Arch α) :=
  if s ≥ e ∨ e > A.ops.length then .error .index
  else
    let inShape := if s = 0 then A.inputShape else ((A.ops.drop (s - 1)).head?.map (·.2)).getD A.inputShape
    let sub := (A.ops.drop s).take (e - s)
    .ok ⟨inShape, (sub.getLast?.map (·.2)).getD inShape, sub⟩

/-! ### `read_layers`: entry names → layers -/

def isKindChar (c : Char) : Bool := c.isAlpha || c == '.' || c == '_'

/-- the suffix `.npy` -/
def npySuffix : List Char := ['.', 'n', 'p', 'y']

/-- the pattern `^(\d+)\.([A-Za-z._]*?)(\.npy)?$` on the characters of a name: digits, kind -/
def parseEntryChars (cs : List Char) : Option (List Char × List Char) :=
  let digits := cs.takeWhile Char.isDigit
  if digits.isEmpty then none else
  match cs.drop digits.length with
  | '.' :: rest =>
    let body := if rest.length ≥ 4 && rest.drop (rest.length - 4) == npySuffix then rest.take (rest.length - 4) else rest
    if body.all isKindChar then some (digits, body) else none
  | _ => none

/-- the pattern `^(\d+)\.([A-Za-z._]*?)(\.npy)?$`: digits, kind -/
def parseEntryName (s : String) : Option (String × String) :=
  (parseEntryChars s.toList).map (fun p => (String.ofList p.1, String.ofList p.2))

/-- sort key of the (repaired) reader: numeric prefix before the first dot, then the name -/
def entryIndex (s : String) : Option Nat :=
  match s.splitOn "." with
  | p :: _ => p.toNat?
  | [] => none

def entryLe (a b : String) : Bool :=
  match entryIndex a, entryIndex b with
  | none, none => a ≤ b
  | none, some _ => true
  | some _, none => false
  | some x, some y => x < y || (x == y && a ≤ b)

inductive ReadRes (α : Type) where
  | ok (layers : List (Layer α))
  | err            -- a referenced array is missing
  | panic          -- unknown layer kind

/-- `read_layers` on the list of entry names and a lookup for the stored `(weights, bias)` pairs -/
def readLayers (names : List String) (arrays : String → Option (Aff α)) : ReadRes α :=
  let sorted := names.mergeSort entryLe
  let rec go : List String → Nat → List (Layer α) → ReadRes α
    | [], _, acc => .ok acc
    | nm :: rest, dim, acc =>
      match parseEntryName nm with
      | none => go rest dim acc
      | some (digits, kind) =>
        if kind == "relu" then go rest dim (acc ++ (List.range dim).map Layer.relu)
        else if kind == "hard_tanh" then go rest dim (acc ++ (List.range dim).map Layer.hardTanh)
        else if kind == "hard_sigmoid" then go rest dim (acc ++ (List.range dim).map Layer.hardSigmoid)
        else if kind == "linear.weights" then
          match arrays (digits ++ ".linear.weights.npy") with
          | some a => go rest a.outdim (acc ++ [.linear a])
          | none => .err
        else if kind == "linear.bias" || kind == "layers" then go rest dim acc
        else .panic
  go sorted 0 []

end AV
