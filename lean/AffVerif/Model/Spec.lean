import AffVerif.Model.Vec
/-!
# Textbook definitions (the *specification* side of C17 / C01)

Plain functions on vectors, written without any reference to trees: what the activation functions, `argmax`,
the class characterisation and the norm test are supposed to compute.
-/
namespace AV.Spec
variable {α : Type} [Zero α] [One α] [Add α] [Mul α] [Neg α] [Sub α] [LE α] [DecidableLE α] [LT α] [DecidableLT α]

/-- replace component `r` of `x` by `φ (x_r)` -/
def onComp (x : List α) (r : Nat) (φ : α → α) : List α := x.set r (φ (x.getD r 0))

def relu (v : α) : α := if v ≤ 0 then 0 else v
def leakyRelu (a v : α) : α := if v ≤ 0 then a * v else v
def hardTanh (lo hi v : α) : α := if hi ≤ v then hi else if v ≤ lo then lo else v
/-- `x` for `|x| > λ`, else `0` -/
def hardShrink (lam v : α) : α := if lam < v then v else if v < -lam then v else 0
/-- `clamp(v/6 + 1/2, 0, 1)` with the constants as parameters (`three = 3`, `sixth = 1/6`, `half = 1/2`) -/
def hardSigmoid (three sixth half v : α) : α := if three ≤ v then 1 else if v ≤ -three then 0 else sixth * v + half
/-- `v` if `v > thr` else `value` -/
def threshold (thr value v : α) : α := if v ≤ thr then value else v

/-- first index of a maximal component: scan from the left, replace the champion only by a strictly larger value -/
def argmaxFrom : List α → Nat → Nat → α → Nat
  | [], _, best, _ => best
  | v :: vs, i, best, bv => if v ≤ bv then argmaxFrom vs (i+1) best bv else argmaxFrom vs (i+1) i v

def argmax (x : List α) : Nat :=
  match x with
  | [] => 0
  | v :: vs => argmaxFrom vs 1 0 v

/-- is component `c` maximal? -/
def isMax (x : List α) (c : Nat) : Bool := x.all (fun v => decide (v ≤ x.getD c 0))

def inBounds (x : List α) (lo hi : Option α) : Bool :=
  x.all (fun v => (match lo with | some l => decide (l ≤ v) | none => true) &&
                  (match hi with | some h => decide (v ≤ h) | none => true))

end AV.Spec
