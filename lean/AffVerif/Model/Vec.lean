/-!
# Linear algebra layer of the model (list based, generic scalar, no imports)

Models the `ndarray` calls used by `affinitree` (`src/linalg/affine.rs`): vectors are lists,
matrices are lists of rows. All definitions are total; shape mismatches are handled by the callers
(the Rust code asserts on them, the model's operations return `Except`/`Option` at the API level).
-/
namespace AV

variable {α : Type} [Zero α] [One α] [Add α] [Mul α] [Neg α] [Sub α]

abbrev Vec (α : Type) := List α
abbrev Mat (α : Type) := List (List α)

/-- `a · b` (ndarray `dot` of two 1-d arrays) -/
def dot : List α → List α → α
  | a :: as, b :: bs => a * b + dot as bs
  | _, _ => 0

def vadd : List α → List α → List α
  | a :: as, b :: bs => (a + b) :: vadd as bs
  | _, _ => []

def vsub : List α → List α → List α
  | a :: as, b :: bs => (a - b) :: vsub as bs
  | _, _ => []

def vmul : List α → List α → List α
  | a :: as, b :: bs => (a * b) :: vmul as bs
  | _, _ => []

def vneg (v : List α) : List α := v.map (fun e => -e)

def smul (c : α) (v : List α) : List α := v.map (c * ·)

def zeros (n : Nat) : List α := List.replicate n 0

def ones (n : Nat) : List α := List.replicate n 1

/-- the `i`-th unit vector of length `n` scaled by `c` -/
def unitVec (n i : Nat) (c : α) : List α :=
  (List.range n).map (fun j => if j = i then c else 0)

/-- `A x` -/
def matVec (A : Mat α) (x : List α) : List α := A.map (fun r => dot r x)

/-- `r` as a row vector times `B`: the linear combination `Σ rᵢ • Bᵢ` of the rows of `B` (width `n`). -/
def vecMat (n : Nat) : List α → Mat α → List α
  | a :: as, b :: bs => vadd (smul a b) (vecMat n as bs)
  | _, _ => zeros n

/-- `A B` where `B` has `n` columns -/
def matMul (n : Nat) (A B : Mat α) : Mat α := A.map (fun r => vecMat n r B)

/-- transpose of a matrix with `n` columns -/
def transpose (n : Nat) (A : Mat α) : Mat α :=
  (List.range n).map (fun j => A.map (fun r => r.getD j 0))

def matNeg (A : Mat α) : Mat α := A.map vneg

def matZip (f : List α → List α → List α) : Mat α → Mat α → Mat α
  | a :: as, b :: bs => f a b :: matZip f as bs
  | _, _ => []

/-- `n × n` diagonal matrix -/
def diag (d : List α) : Mat α :=
  (List.range d.length).map (fun i => unitVec d.length i (d.getD i 0))

def eye (n : Nat) : Mat α := (List.range n).map (fun i => unitVec n i 1)

def zeroMat (r c : Nat) : Mat α := List.replicate r (zeros c)

def isZeroVec [DecidableEq α] (v : List α) : Bool := v.all (fun e => e == 0)

end AV
