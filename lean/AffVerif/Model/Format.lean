import AffVerif.Model.PTree
/-!
# Text renderings (`src/linalg/impl_affineformat.rs`, `src/pwl/dot.rs`, `src/pwl/node.rs`, `Display for AffTree`)

Numbers are signed magnitudes (the code prints the sign bit, so `-0.0` is `−0.00`) over `Rat`;
`fmtFixed` is Rust's `{:.p}`: the exact binary value rounded half-to-even to `p` decimals.
-/
namespace AV.Fmt

structure SNum where
  neg : Bool
  mag : Rat        -- absolute value
deriving DecidableEq, Repr

def SNum.val (x : SNum) : Rat := if x.neg then -x.mag else x.mag
def SNum.isZero (x : SNum) : Bool := x.mag == 0

/-- round to the nearest integer, ties to even (what `{:.p}` does with the exact binary value) -/
def roundHalfEven (x : Rat) : Int :=
  let fl := x.floor
  let frac := x - fl
  if frac > 1/2 then fl + 1 else if frac < 1/2 then fl else (if fl % 2 == 0 then fl else fl + 1)

/-- `{:.p}` of a non-negative value -/
def fmtFixed (q : Rat) (p : Nat) : String :=
  let r : Int := roundHalfEven (q * (10 : Rat) ^ p)
  let ds := toString r.toNat
  let ds := String.ofList (List.replicate (p + 1 - ds.length) '0') ++ ds
  if p == 0 then ds
  else (ds.take (ds.length - p)).toString ++ "." ++ (ds.drop (ds.length - p)).toString

def plus : String := "+"
def minus : String := "−"
def leq : String := "≤"
def ellipsis : String := "⋯"
def vellipsis : String := "⋮"
def top : String := "⊤"
def bot : String := "⊥"

/-- `write_float` -/
def writeFloat (x : SNum) (p : Nat) : String := (if x.neg then minus else plus) ++ fmtFixed x.mag p

inductive Bnd | unbounded | incl (v : Int) | excl (v : Int)
deriving DecidableEq, Repr

def rangeContains (r : Bnd × Bnd) (no : Int) : Bool :=
  (match r.1 with | .unbounded => true | .incl s => s ≤ no | .excl s => s < no) &&
  (match r.2 with | .unbounded => true | .incl e => no ≤ e | .excl e => no < e)

structure Opts where
  sortCoefficients : Nat
  simplifyZero : Bool
  simplifyTautologies : Bool
  normalize : Bool
  skipAxes : Bnd × Bnd
  skipRows : Bnd × Bnd

def emptyRange : Bnd × Bnd := (.incl 1, .excl 0)
def defaultFunc : Opts := ⟨0, true, false, false, (.incl 20, .unbounded), (.incl 5, .unbounded)⟩
def defaultPoly : Opts := ⟨5, false, true, true, (.incl 20, .unbounded), (.incl 5, .unbounded)⟩

/-- stable insertion sort by descending magnitude -/
def insertDesc (e : Nat × SNum) : List (Nat × SNum) → List (Nat × SNum)
  | [] => [e]
  | h :: t => if e.2.mag > h.2.mag then e :: h :: t else h :: insertDesc e t

def sortDesc (l : List (Nat × SNum)) : List (Nat × SNum) :=
  l.foldl (fun acc e => insertDesc e acc) []

/-- what `write_lincomb` emits: a term (coefficient next to the index of its variable; `lead` = no separating blank)
    or the ellipsis that stands for a run of omitted terms -/
inductive LTok where
  | term (idx : Nat) (c : SNum) (lead : Bool)
  | ell

/-- tokens of `write_lincomb` from position `no` on (`firstSkip` = no ellipsis has been emitted yet) -/
def lincombToks (o : Opts) : List (Nat × SNum) → Nat → Bool → List LTok
  | [], _, _ => []
  | (idx, c) :: rest, no, firstSkip =>
    if rangeContains o.skipAxes no then
      (if firstSkip then [LTok.ell] else []) ++ lincombToks o rest (no+1) false
    else
      LTok.term idx c (no == 0) :: lincombToks o rest (no+1) firstSkip

def LTok.render (p : Nat) : LTok → String
  | .term idx c lead => (if lead then "" else " ") ++ writeFloat c p ++ " $" ++ toString idx
  | .ell => " " ++ ellipsis

def lincombAux (o : Opts) (p : Nat) (elems : List (Nat × SNum)) (no : Nat) (firstSkip : Bool) : String :=
  String.join ((lincombToks o elems no firstSkip).map (LTok.render p))

/-- `write_lincomb` -/
def writeLincomb (o : Opts) (p : Nat) (coeffs : List SNum) : String :=
  let elems := (List.range coeffs.length).zip coeffs
  let elems := if o.sortCoefficients != 0 && o.sortCoefficients ≤ coeffs.length then sortDesc elems else elems
  lincombAux o p elems 0 true

def allZero (row : List SNum) : Bool := row.all (·.isZero)

def maxMag (row : List SNum) : Rat := row.foldl (fun a b => max a b.mag) 0

/-- `write_inequality` (division by the largest magnitude is exact here; the float quotient may differ in the last place) -/
def writeInequality (o : Opts) (p : Nat) (row : List SNum) (bias : SNum) : String :=
  if o.simplifyTautologies && allZero row then (if !bias.neg || bias.mag == 0 then top else bot)
  else if o.normalize && !allZero row then
    let s := maxMag row
    writeLincomb o p (row.map (fun c => ⟨c.neg, c.mag / s⟩)) ++ " " ++ leq ++ " " ++ writeFloat ⟨bias.neg, bias.mag / s⟩ p
  else
    writeLincomb o p row ++ " " ++ leq ++ " " ++ writeFloat bias p

/-- `write_affcomb` -/
def writeAffcomb (o : Opts) (p : Nat) (row : List SNum) (bias : SNum) : String :=
  writeFloat bias p ++ " " ++ (if o.simplifyZero && allZero row then "" else writeLincomb o p row)

/-- what `write_poly` / `write_func` emit per row: the row (with "a newline follows") or the vertical ellipsis that
    stands for a run of omitted rows -/
inductive RTok where
  | row (no : Nat) (r : List SNum) (b : SNum) (nl : Bool)
  | vell

def rowToks (o : Opts) (total : Nat) : List (List SNum × SNum) → Nat → Bool → List RTok
  | [], _, _ => []
  | (row, b) :: rest, no, firstSkip =>
    if rangeContains o.skipRows no then
      (if firstSkip then [RTok.vell] else []) ++ rowToks o total rest (no+1) false
    else
      RTok.row no row b (no + 1 < total) :: rowToks o total rest (no+1) firstSkip

def RTok.render (line : List SNum → SNum → String) : RTok → String
  | .row _ r b nl => line r b ++ (if nl then "\n" else "")
  | .vell => " " ++ vellipsis ++ "\n"

/-- rows of `write_poly` / `write_func`: a newline follows every row that is not the last one of the matrix -/
def rowsAux (o : Opts) (line : List SNum → SNum → String) (total : Nat)
    (rows : List (List SNum × SNum)) (no : Nat) (firstSkip : Bool) : String :=
  String.join ((rowToks o total rows no firstSkip).map (RTok.render line))

def writePoly (o : Opts) (p : Nat) (rows : List (List SNum × SNum)) : String :=
  rowsAux o (writeInequality o p) rows.length rows 0 true

def writeFunc (o : Opts) (p : Nat) (rows : List (List SNum × SNum)) : String :=
  rowsAux o (writeAffcomb o p) rows.length rows 0 true

/-! ### trees -/

structure SAff where
  rows : List (List SNum × SNum)

/-- `Display for AffNode`: terminal ↦ `write_func` with `default_func`, decision ↦ `write_poly` with `default_poly` -/
def writeNode (isLeaf : Bool) (a : SAff) (p : Nat) : String :=
  if isLeaf then writeFunc defaultFunc p a.rows else writePoly defaultPoly p a.rows

/-- `write_children`: `label->idx` separated by `, ` -/
def writeChildren (children : List (Option Nat)) : String :=
  let ex := ((List.range children.length).zip children).filterMap (fun (l, c) => c.map (fun i => (l, i)))
  ", ".intercalate (ex.map (fun (l, i) => toString l ++ "->" ++ toString i))

def padLeft3 (s : String) : String := String.ofList (List.replicate (3 - s.length) ' ') ++ s

/-- `Display for AffTree` over the arena in index order -/
def displayTree (nodes : List (ANode SAff)) : String :=
  "Decision Tree with " ++ toString nodes.length ++ " nodes\n" ++
  String.join (nodes.map (fun nd =>
    "[" ++ padLeft3 (toString nd.idx) ++ "|" ++ (if nd.isleaf then "T" else "D") ++ "] " ++
      writeNode nd.isleaf nd.val 2 ++ "\n" ++
    (if nd.children.any Option.isSome then "children: " ++ writeChildren nd.children ++ "\n" else "")))

/-- the edge statements of the DOT export: `(parent, child, label)`, one per node whose parent is in the arena -/
def dotEdges {β : Type} (nodes : List (ANode β)) : List (Nat × Nat × Nat) :=
  nodes.filterMap (fun nd =>
    match nd.parent with
    | none => none
    | some p =>
      match nodes.find? (fun x => x.idx == p) with
      | none => none
      | some pn => some (p, nd.idx, pn.children.findIdx (fun c => c == some nd.idx)))

def dotNodeStmt (nd : ANode SAff) : String :=
  "n" ++ toString nd.idx ++ " [label=\"" ++
    (if nd.isleaf then writeFunc defaultFunc 2 nd.val.rows ++ "\", shape=box];\n"
     else writePoly defaultPoly 2 nd.val.rows ++ "\", shape=ellipse];\n")

def dotEdgeStmt (e : Nat × Nat × Nat) : String :=
  "n" ++ toString e.1 ++ " -> n" ++ toString e.2.1 ++ " [label=" ++ toString e.2.2 ++ ", " ++
    (if e.2.2 == 0 then "style=dashed" else "style=solid") ++ "];\n"

/-- `Display for Dot` with the default attributes of `Dot::from`: one statement per node, then one per edge -/
def dotTree (nodes : List (ANode SAff)) : String :=
  "digraph afftree {\nbgcolor=transparent;\nconcentrate=true;\nmargin=0;\n" ++
  String.join (nodes.map dotNodeStmt) ++
  String.join ((dotEdges nodes).map dotEdgeStmt) ++
  "}"

end AV.Fmt
