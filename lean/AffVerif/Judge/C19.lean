import AffVerif.Judge.C18
import AffVerif.Model.Format
/-!
Judge for C19: the implementation's strings against the model's strings (correspondence) and, independently,
against the stored values by parsing the rendered terms back (property: every shown coefficient stands next to
its variable index with the stored value at the printed precision, omissions are marked).
-/
namespace AV.Judge

open Fmt

def pNumS : P SNum := do
  let s ← tok
  match parseNum s with
  | .ok q => pure ⟨s.startsWith "-", absQ q⟩
  | .error e => throw e

def pAffS : P (List (List SNum × SNum) × Nat) := do
  let r ← pNat
  let c ← pNat
  let rows ← pMany r (pMany c pNumS)
  let b ← pMany r pNumS
  pure (rows.zip b, c)

def pContentS : P SAff := do
  let _ ← pState
  let (rows, _) ← pAffS
  pure ⟨rows⟩

def hexVal (c : Char) : Nat :=
  if c.isDigit then c.toNat - '0'.toNat else c.toNat - 'a'.toNat + 10

def unhex (s : String) : String :=
  if s == "-" then "" else
  let cs := s.toList
  let rec go : List Char → List UInt8
    | a :: b :: rest => (UInt8.ofNat (hexVal a * 16 + hexVal b)) :: go rest
    | _ => []
  match String.fromUTF8? ⟨(go cs).toArray⟩ with
  | some s => s
  | none => "<invalid utf8>"

def pBnd : P Bnd := do
  let t ← tok
  if t == "U" then pure .unbounded
  else
    let v := ((t.drop 1).toString.toInt?).getD 0
    if t.startsWith "I" then pure (.incl v) else pure (.excl v)

def pOpts : P Opts := do
  let sc ← pNat; let sz ← pBool; let st ← pBool; let nm ← pBool
  let a0 ← pBnd; let a1 ← pBnd; let r0 ← pBnd; let r1 ← pBnd
  pure ⟨sc, sz, st, nm, (a0, a1), (r0, r1)⟩

/-! ### reading a rendered linear combination back -/

structure Term where
  neg : Bool
  mag : Q
  idx : Nat

def parseDec (s : String) : Option Q :=
  match s.splitOn "." with
  | [i] => i.toNat?.map (fun n => (n : Q))
  | [i, f] =>
    match i.toNat?, f.toNat? with
    | some a, some b => some ((a : Q) + (b : Q) / (10 : Q) ^ f.length)
    | _, _ => none
  | _ => none

def parseSigned (w : String) : Option (Bool × Q) :=
  if w.startsWith "+" then (parseDec (w.drop 1).toString).map (fun q => (false, q))
  else if w.startsWith minus then (parseDec (w.drop 1).toString).map (fun q => (true, q))
  else none

/-- words of a rendered lincomb: `±d.dd $i` pairs and `⋯`; returns terms and whether an ellipsis occurred -/
def parseLincomb : List String → Option (List Term × Bool)
  | [] => some ([], false)
  | w :: rest =>
    if w == ellipsis then (parseLincomb rest).map (fun r => (r.1, true))
    else
      match rest with
      | v :: rest' =>
        match parseSigned w, (if v.startsWith "$" then (v.drop 1).toString.toNat? else none) with
        | some (ng, q), some i => (parseLincomb rest').map (fun r => (⟨ng, q, i⟩ :: r.1, r.2))
        | _, _ => none
      | [] => none

/-- direct check of one rendered lincomb against the stored coefficients (scaled by `1/scale`) -/
def checkLincomb (o : Opts) (p : Nat) (coeffs : List SNum) (scale : Q) (words : List String) : Option String :=
  match parseLincomb words with
  | none => some s!"cannot read the rendered terms {words}"
  | some (terms, ell) =>
    -- half a unit of the last place; a normalised entry is an f64 quotient, off by at most one ulp of its value
    let half : Q := (1 : Q) / (2 * (10 : Q) ^ p)
    let bad := terms.find? (fun t =>
      match coeffs[t.idx]? with
      | none => true
      | some c => !(absQ (t.mag - c.mag / scale) ≤ half + (if scale != 1 then (c.mag / scale) * mkRat 1 (2 ^ 51) + mkRat 1 (10 ^ 12) else 0)) || (t.neg != c.neg))
    match bad with
    | some t => some s!"term {if t.neg then "-" else "+"}{t.mag} ${t.idx} does not show the stored coefficient {(coeffs[t.idx]?.map (·.val)).getD 0}{if scale != 1 then s!" / {scale}" else ""} at precision {p}"
    | none =>
      let shownIdx := terms.map (·.idx)
      if !noDup shownIdx then some "a variable index is shown twice"
      else if terms.length > coeffs.length then some "more terms than coefficients"
      else if (terms.length < coeffs.length) != ell then
        some s!"{coeffs.length - terms.length} coefficient(s) are omitted {if ell then "although" else "but"} {if ell then "all are shown?" else "no ellipsis marks it"}"
      else none

def splitWords (s : String) : List String := (s.splitOn " ").filter (· ≠ "")

/-- two rendered strings agree except for the last decimal place of signed numbers (rounded float quotients of
    normalised rows); every other word — indices, labels, variables, arrows — is identical -/
def sameUpToLastPlace (a b : String) : Bool :=
  let la := a.splitOn "\n"
  let lb := b.splitOn "\n"
  la.length == lb.length && (la.zip lb).all (fun (x, y) =>
    let wx := splitWords x
    let wy := splitWords y
    wx.length == wy.length && (wx.zip wy).all (fun (u, v) =>
      u == v ||
      (u.length == v.length &&
        match parseSigned u, parseSigned v with
        | some (_, q), some (_, r) =>
          let decimals := match u.splitOn "." with | [_, f] => f.length | _ => 0
          absQ (q - r) ≤ (1 : Q) / (10 : Q) ^ decimals
        | _, _ => false)))

def judgeC19 : P Verdict := do
  let kind ← tok
  tag kind
  match kind with
  | "func" | "poly" =>
    let mode ← tok
    let prec ← pNat
    let o ← if mode == "opts" then pOpts else pure (if kind == "func" then defaultFunc else defaultPoly)
    let (rows, _) ← pAffS
    expect "|"
    let s := unhex (← tok)
    tag mode
    if rows.length ≥ 2 then tag "nt"
    -- property: read the lines back
    let lines := s.splitOn "\n"
    let shownRows := ((List.range rows.length).zip rows).filter (fun (no, _) => !rangeContains o.skipRows no)
    let dataLines := lines.filter (fun l => l.trimAscii.toString != vellipsis && l != "")
    let hasV := lines.any (fun l => l.trimAscii.toString == vellipsis)
    if hasV != (shownRows.length < rows.length) then
      return .propfail s!"[C19] {rows.length - shownRows.length} row(s) omitted, vertical ellipsis present: {hasV}"
    if dataLines.length != shownRows.length then
      return .propfail s!"[C19] {dataLines.length} rows rendered, {shownRows.length} expected"
    for (line, (_, (row, bias))) in dataLines.zip shownRows do
      let words := splitWords line
      if kind == "poly" then
        if o.simplifyTautologies && allZero row then
          let want := if !bias.neg || bias.mag == 0 then top else bot
          if words != [want] then return .propfail s!"[C19] zero row with bias {bias.val} rendered as '{line}', expected {want}"
        else
          -- <lincomb> ≤ <bias>
          match words.reverse with
          | b :: le :: revLin =>
            if le != leq then return .propfail s!"[C19] inequality sign missing in '{line}'"
            let scale : Q := if o.normalize && !allZero row then maxMag row else 1
            match parseSigned b with
            | some (ng, q) =>
              if ng != bias.neg || !(absQ (q - bias.mag / scale) ≤ (1 : Q) / (2 * (10 : Q) ^ prec) + (if scale != 1 then (bias.mag / scale) * mkRat 1 (2 ^ 51) + mkRat 1 (10 ^ 12) else 0)) then
                return .propfail s!"[C19] bias rendered as {b} but the stored bias is {bias.val}{if scale != 1 then s!" / {scale}" else ""}"
            | none => return .propfail s!"[C19] cannot read the bias in '{line}'"
            if let some msg := checkLincomb o prec row scale revLin.reverse then return .propfail s!"[C19] {msg} (line '{line}')"
          | _ => return .propfail s!"[C19] malformed inequality '{line}'"
      else
        match words with
        | b :: lin =>
          match parseSigned b with
          | some (ng, q) =>
            if ng != bias.neg || !(absQ (q - bias.mag) ≤ (1 : Q) / (2 * (10 : Q) ^ prec)) then
              return .propfail s!"[C19] bias rendered as {b} but the stored bias is {bias.val}"
          | none => return .propfail s!"[C19] cannot read the bias in '{line}'"
          if !(o.simplifyZero && allZero row) || !lin.isEmpty then
            if let some msg := checkLincomb o prec row 1 lin then return .propfail s!"[C19] {msg} (line '{line}')"
        | [] => return .propfail "[C19] empty row"
    -- correspondence: exact string of the model
    let m := if kind == "func" then writeFunc o prec rows else writePoly o prec rows
    if m == s then pure .ok
    else
      -- normalised rows are float quotients; a last-place difference there is rounding
      if kind == "poly" && o.normalize then pure (.inexact "normalised quotient")
      else pure (.diverge s!"rendered string differs: model '{m}' impl '{s}'")
  | "dot" | "display" =>
    let _n ← pNat
    let d ← pDump pContentS
    expect "|"
    let s := unhex (← tok)
    if d.nodes.length ≥ 3 then tag "nt"
    let nodes := sortNodes d.nodes
    -- property: exactly one statement per node and per edge
    if kind == "dot" then
      let lines := s.splitOn "\n"
      for nd in nodes do
        let pre := s!"n{nd.idx} [label="
        if (lines.filter (fun l => l.startsWith pre)).length != 1 then
          return .propfail s!"[C19] DOT: node {nd.idx} does not have exactly one statement"
        match nd.parent with
        | some p =>
          let epre := s!"n{p} -> n{nd.idx} [label="
          let ls := lines.filter (fun l => l.startsWith epre)
          if ls.length != 1 then return .propfail s!"[C19] DOT: edge {p}->{nd.idx} does not have exactly one statement"
          let label := match nodes.find? (fun x => x.idx == p) with
            | some pn => pn.children.findIdx (fun c => c == some nd.idx)
            | none => 99
          if !(ls.headD "").startsWith (epre ++ toString label ++ ",") then
            return .propfail s!"[C19] DOT: edge {p}->{nd.idx} carries the wrong label (expected {label})"
        | none => pure ()
      let nEdges := (lines.filter (fun l => (l.splitOn " -> ").length == 2)).length
      -- one edge per node that has a parent (a re-rooted arena holds more than one component)
      let wantEdges := (nodes.filter (fun nd => nd.parent.isSome)).length
      if nEdges != wantEdges then return .propfail s!"[C19] DOT: {nEdges} edge statements for {wantEdges} edges"
    else
      -- Display: the `children:` line of every node lists exactly its occupied slots as `label->index`
      let lines := s.splitOn "\n"
      for nd in nodes do
        let istr := toString nd.idx
        let hdr := "[" ++ String.ofList (List.replicate (3 - istr.length) ' ') ++ istr ++ "|" ++ (if nd.isleaf then "T" else "D") ++ "]"
        let pos := lines.findIdx (fun (l : String) => l.startsWith hdr)
        if pos ≥ lines.length then return .propfail s!"[C19] Display: node {nd.idx} has no header line"
        let want := ((List.range nd.children.length).zip nd.children).filterMap (fun (l, c) => c.map (fun i => s!"{l}->{i}"))
        -- the node's own rows come first (one line per row of its map / predicate, the first on the header line)
        let nrows := max 1 nd.val.rows.length
        for k in List.range (nrows - 1) do
          let l := lines.getD (pos + 1 + k) ""
          if l.startsWith "children: " || l.startsWith "[" then
            return .propfail s!"[C19] Display: node {nd.idx} holds {nrows} rows but only {k + 1} of them are printed (no ellipsis)"
        let next := lines.getD (pos + nrows) ""
        if !want.isEmpty then
          let got := (((next.drop 10).toString.splitOn ", "))
          if !next.startsWith "children: " || got != want then
            return .propfail s!"[C19] Display: node {nd.idx} has children {want} but its line reads '{next}'"
        else if next.startsWith "children: " then
          return .propfail s!"[C19] Display: terminal {nd.idx} is printed with children: '{next}'"
    let m := if kind == "dot" then dotTree nodes else displayTree nodes
    if m == s then pure .ok
    else
      -- decisions are printed normalised: last-place differences of float quotients are rounding; anything else
      -- (labels, indices, structure) is a divergence
      if nodes.any (fun nd => !nd.isleaf) && sameUpToLastPlace m s then pure (.inexact "normalised quotient")
      else pure (.diverge s!"rendered tree differs: model '{m}' impl '{s}'")
  | _ => throw s!"unknown C19 kind {kind}"

end AV.Judge
