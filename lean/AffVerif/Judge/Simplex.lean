import AffVerif.Judge.Common
/-!
# Exact rational simplex (untrusted search)

Finds points, Farkas multipliers and optima in exact arithmetic. Nothing here is trusted: every answer is
validated by the verified checkers of `AffVerif/Check` (a point by membership, multipliers by
`checkInfeasible`, optimality by a primal/dual pair) before the judge uses it.
-/
namespace AV.Judge.Simplex

abbrev Tab := Array (Array Q)

structure State where
  t : Tab               -- m constraint rows, each of width ncols+1 (last = rhs)
  obj : Array Q         -- reduced costs, width ncols+1 (last = −value)
  basis : Array Nat     -- basic variable of each row

def pivot (s : State) (r c : Nat) : State :=
  let prow := s.t[r]!
  let p := prow[c]!
  let prow' := prow.map (· / p)
  let t' := s.t.mapIdx (fun i row =>
    if i == r then prow' else
      let f := row[c]!
      if f == 0 then row else row.mapIdx (fun j v => v - f * prow'[j]!))
  let fo := s.obj[c]!
  let obj' := if fo == 0 then s.obj else s.obj.mapIdx (fun j v => v - fo * prow'[j]!)
  { t := t', obj := obj', basis := s.basis.set! r c }

inductive Outcome | optimal | unbounded (col : Nat) | stalled

/-- minimise with Bland's rule; only columns `< allowed` may enter -/
def iterate (allowed : Nat) (fuel : Nat) (s : State) : State × Outcome := Id.run do
  let mut st := s
  let width := st.obj.size - 1
  for _ in [0:fuel] do
    -- entering column: smallest index with negative reduced cost
    let mut enter : Option Nat := none
    for j in [0:min allowed width] do
      if enter.isNone && st.obj[j]! < 0 then enter := some j
    match enter with
    | none => return (st, .optimal)
    | some c =>
      -- ratio test, ties broken by smallest basic variable
      let mut best : Option (Nat × Q × Nat) := none
      for i in [0:st.t.size] do
        let a := st.t[i]![c]!
        if a > 0 then
          let ratio := st.t[i]![width]! / a
          match best with
          | none => best := some (i, ratio, st.basis[i]!)
          | some (_, br, bb) =>
            if ratio < br || (ratio == br && st.basis[i]! < bb) then best := some (i, ratio, st.basis[i]!)
      match best with
      | none => return (st, .unbounded c)
      | some (r, _, _) => st := pivot st r c
  return (st, .stalled)

inductive Result where
  | infeasible
  | unbounded
  | optimal (z : List Q) (value : Q)
  | failed

/-- minimise `c·z` subject to `M z = q`, `z ≥ 0` -/
def solveStd (M : Mat Q) (q : List Q) (c : List Q) : Result := Id.run do
  let m := M.length
  let n := c.length
  let fuel := 200 + 50 * (m + n)
  -- phase 1 tableau [M | I | q] with non-negative rhs
  let rows : Array (Array Q) := (List.zip M q).toArray.mapIdx (fun i (row, qi) =>
    let sgn : Q := if qi < 0 then -1 else 1
    let body := (row.map (· * sgn)).toArray
    let body := body ++ (Array.range m).map (fun k => if k == i then (1 : Q) else 0)
    body.push (qi * sgn))
  let width := n + m
  let obj1 : Array Q := (Array.range (width + 1)).map (fun j =>
    if j < n || j == width then -(rows.foldl (fun acc r => acc + r[j]!) 0) else 0)
  let s0 : State := ⟨rows, obj1, (Array.range m).map (· + n)⟩
  let (s1, o1) := iterate width fuel s0
  match o1 with
  | .stalled => return .failed
  | _ => pure ()
  if s1.obj[width]! != 0 then
    -- −value ≠ 0 means the artificials cannot all vanish
    if -(s1.obj[width]!) > 0 then return .infeasible
  -- drive remaining artificials out of the basis
  let mut st := s1
  for i in [0:m] do
    if st.basis[i]! ≥ n then
      let mut piv : Option Nat := none
      for j in [0:n] do
        if piv.isNone && st.t[i]![j]! != 0 then piv := some j
      match piv with
      | some j => st := pivot st i j
      | none => pure ()   -- redundant row; its artificial stays basic at level 0
  -- phase 2 objective: reduced costs of c with respect to the current basis
  let mut obj2 : Array Q := ((c.toArray ++ (Array.replicate m (0 : Q))).push 0)
  for i in [0:m] do
    let b := st.basis[i]!
    let cb := if b < n then c.getD b 0 else 0
    if cb != 0 then
      let row := st.t[i]!
      obj2 := obj2.mapIdx (fun j v => v - cb * row[j]!)
  let s2 : State := { st with obj := obj2 }
  let (s3, o3) := iterate n fuel s2
  match o3 with
  | .stalled => return .failed
  | .unbounded _ => return .unbounded
  | .optimal =>
    let mut z : Array Q := Array.replicate n 0
    for i in [0:m] do
      let b := s3.basis[i]!
      if b < n then z := z.set! b (s3.t[i]![width]!)
    return .optimal z.toList (-(s3.obj[width]!))

/-- a non-negative solution of `M z = q` -/
def feasNonneg (M : Mat Q) (q : List Q) (n : Nat) : Option (List Q) :=
  match solveStd M q (List.replicate n 0) with
  | .optimal z _ => some z
  | _ => none

/-- `min c·x` over `{x | A x ≤ b}` (free `x` of dimension `n`): split `x = x⁺ − x⁻`, add slacks -/
inductive PolyResult where
  | infeasible
  | unbounded
  | optimal (x : List Q) (value : Q)
  | failed

def solvePoly (A : Mat Q) (b : List Q) (c : List Q) (n : Nat) : PolyResult :=
  let m := A.length
  let M : Mat Q := (List.zip A (List.range m)).map (fun (row, i) =>
    let row := (List.range n).map (fun j => row.getD j 0)
    row ++ row.map (fun v => -v) ++ (List.range m).map (fun k => if k == i then (1 : Q) else 0))
  let cc : List Q := (List.range n).map (fun j => c.getD j 0)
  let cost := cc ++ cc.map (fun v => -v) ++ List.replicate m 0
  match solveStd M b cost with
  | .infeasible => .infeasible
  | .unbounded => .unbounded
  | .failed => .failed
  | .optimal z v =>
    .optimal ((List.range n).map (fun j => z.getD j 0 - z.getD (n + j) 0)) v

/-- a point of `{x | A x ≤ b}` -/
def findPoint (A : Mat Q) (b : List Q) (n : Nat) : Option (List Q) :=
  match solvePoly A b [] n with
  | .optimal x _ => some x
  | _ => none

/-- Farkas multipliers `y ≥ 0`, `yᵀA = 0`, `y·b = −1` -/
def findFarkas (A : Mat Q) (b : List Q) (n : Nat) : Option (List Q) :=
  let m := A.length
  let M : Mat Q := (List.range n).map (fun j => A.map (fun row => row.getD j 0)) ++ [b]
  let q : List Q := List.replicate n 0 ++ [-1]
  feasNonneg M q m

end AV.Judge.Simplex
