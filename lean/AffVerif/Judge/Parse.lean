import AffVerif.Model.Compose
import AffVerif.Model.Iter
/-!
# Case-file parser of the judge (untrusted glue)

One case per line, tokens separated by blanks. Floats are exchanged exactly as `<mantissa>p<exponent>`
(value = mantissa · 2^exponent), so the judge computes on exactly the numbers the crate computed on.
-/
namespace AV.Judge

abbrev Q := Rat

structure PState where
  toks : Array String
  pos : Nat
  tags : Array String := #[]

abbrev P := StateT PState (Except String)

def P.run' {γ : Type} (p : P γ) (toks : Array String) : Except String (γ × Array String) :=
  (StateT.run p ⟨toks, 0, #[]⟩).map (fun r => (r.1, r.2.tags))

/-- attach a tag to the verdict line (`nt` = non-trivial case; others feed the distribution statistics) -/
def tag (t : String) : P Unit := modify (fun s => { s with tags := s.tags.push t })

def tok : P String := do
  let s ← get
  if h : s.pos < s.toks.size then
    set { s with pos := s.pos + 1 }
    pure s.toks[s.pos]
  else throw "unexpected end of line"

def peek? : P (Option String) := do
  let s ← get
  pure (s.toks[s.pos]?)

def atEnd : P Bool := do
  let s ← get
  pure (s.pos ≥ s.toks.size)

def expect (t : String) : P Unit := do
  let s ← tok
  if s == t then pure () else throw s!"expected '{t}' got '{s}'"

def pNat : P Nat := do
  let s ← tok
  match s.toNat? with
  | some n => pure n
  | none => throw s!"expected natural number, got '{s}'"

def pInt : P Int := do
  let s ← tok
  match s.toInt? with
  | some n => pure n
  | none => throw s!"expected integer, got '{s}'"

/-- `-1` encodes `None` -/
def pOptNat : P (Option Nat) := do
  let i ← pInt
  if i < 0 then pure none else pure (some i.toNat)

def pBool : P Bool := do
  let n ← pNat
  pure (n != 0)

def ratOfMantExp (m : Int) (e : Int) : Q :=
  if e ≥ 0 then ((m * (2 : Int) ^ e.toNat : Int) : Q) else mkRat m ((2 : Nat) ^ (-e).toNat)

def parseNum (s : String) : Except String Q :=
  match s.splitOn "p" with
  | [m, e] =>
    match m.toInt?, e.toInt? with
    | some m, some e => .ok (ratOfMantExp m e)
    | _, _ => .error s!"bad number '{s}'"
  | _ => .error s!"bad number '{s}'"

/-- a finite float -/
def pNum : P Q := do
  let s ← tok
  match parseNum s with
  | .ok q => pure q
  | .error e => throw e

/-- a float that may be `nan` / `inf` / `-inf` (all mapped to `none`) -/
def pNumOpt : P (Option Q) := do
  let s ← tok
  if s == "nan" || s == "inf" || s == "-inf" then pure none
  else match parseNum s with
    | .ok q => pure (some q)
    | .error e => throw e

/-- a float with its non-finite cases kept apart -/
inductive XNum | fin (q : Q) | pinf | ninf | nan

def pNumX : P XNum := do
  let s ← tok
  if s == "nan" then pure .nan
  else if s == "inf" then pure .pinf
  else if s == "-inf" then pure .ninf
  else match parseNum s with
    | .ok q => pure (.fin q)
    | .error e => throw e

def XNum.toOpt : XNum → Option Q
  | .fin q => some q
  | _ => none

def pMany {γ : Type} (n : Nat) (p : P γ) : P (List γ) := do
  let mut acc : Array γ := #[]
  for _ in [0:n] do
    acc := acc.push (← p)
  pure acc.toList

def pVec : P (List Q) := do
  let n ← pNat
  pMany n pNum

def pVecOpt : P (List (Option Q)) := do
  let n ← pNat
  pMany n pNumOpt

def pVecX : P (List XNum) := do
  let n ← pNat
  pMany n pNumX

def pNatList : P (List Nat) := do
  let n ← pNat
  pMany n pNat

/-- `rows cols entries…` row-major -/
def pMat : P (Mat Q × Nat) := do
  let r ← pNat
  let c ← pNat
  let rows ← pMany r (pMany c pNum)
  pure (rows, c)

/-- `rows cols entries… bias…` -/
def pAff : P (Aff Q) := do
  let (m, c) ← pMat
  let b ← pMany m.length pNum
  pure ⟨m, b, c⟩

def pState : P (NState Q) := do
  let s ← tok
  match s with
  | "I" => pure .indeterminate
  | "X" => pure .infeasible
  | "F" => pure .feasible
  | "W" =>
    let k ← pNat
    let ws ← pMany k pVec
    pure (.witness ws)
  | _ => throw s!"bad node state '{s}'"

/-- an arena dump: `K root nnodes` and per node `idx parent children… isleaf value` -/
structure Dump (β : Type) where
  K : Nat
  root : Option Nat
  nodes : List (ANode β)

def pDump {β : Type} (pv : P β) : P (Dump β) := do
  let K ← pNat
  let root ← pOptNat
  let n ← pNat
  let nodes ← pMany n (do
    let idx ← pNat
    let parent ← pOptNat
    let children ← pMany K pOptNat
    let isleaf ← pBool
    let v ← pv
    pure (⟨idx, parent, children, isleaf, v⟩ : ANode β))
  pure ⟨K, root, nodes⟩

def pContent : P (Content Q) := do
  let st ← pState
  let a ← pAff
  pure ⟨a, st⟩

/-- reconstruct the inductive tree below `i` from an arena dump (untrusted; validated by `toArena`) -/
def absNode {β : Type} (nodes : List (ANode β)) : Nat → Nat → Option (ITree β)
  | 0, _ => none
  | fuel+1, i =>
    match nodes.find? (fun nd => nd.idx == i) with
    | none => none
    | some nd =>
      let rec kids : List (Option Nat) → Option (IKids β)
        | [] => some .nil
        | none :: r => (kids r).map (fun k => .cons none k)
        | some c :: r =>
          match absNode nodes fuel c, kids r with
          | some t, some k => some (.cons (some t) k)
          | _, _ => none
      (kids nd.children).map (fun ks => .node nd.idx nd.val ks)

def anodeEq {β : Type} [DecidableEq β] (a b : ANode β) : Bool :=
  a.idx == b.idx && a.parent == b.parent && a.children == b.children && a.isleaf == b.isleaf && a.val == b.val

def sortNodes {β : Type} (l : List (ANode β)) : List (ANode β) :=
  (l.toArray.qsort (fun a b => a.idx < b.idx)).toList

/-- `abs d`: the tree whose arena is exactly the dump (root, parent pointers, child slots, leaf flags,
    values, number of nodes); `none` if there is no such tree -/
def absDump {β : Type} [DecidableEq β] (d : Dump β) : Option (ITree β) :=
  match d.root with
  | none => none
  | some r =>
    match absNode d.nodes (d.nodes.length + 1) r with
    | none => none
    | some t =>
      let a := sortNodes t.toArena
      let b := sortNodes d.nodes
      if a.length == b.length && (a.zip b).all (fun p => anodeEq p.1 p.2) then some t else none

end AV.Judge
