import AffVerif.Judge.Trees
/-! Judge for C02: un-pruned composition and `apply_func`. -/
namespace AV.Judge

def judgeC02 : P Verdict := do
  let op ← tok
  tag op
  match op with
  | "compose" =>
    -- `tiny`: every terminal of g is a lattice map scaled by 2^-60 / 2^-70; the data is dyadic and binary64 computes
    -- every coefficient of the composition exactly, so the stored tree has to be the model's tree, entry by entry
    let tiny ← (do if (← peek?) == some "tiny" then let _ ← tok; pure true else pure false)
    if tiny then tag "tiny"
    let fd ← pTree; let gd ← pTree; expect "|"
    let st ← tok
    let some f := fd.abs | return .skip "operand f is not a consistent tree"
    let some g := gd.abs | return .skip "operand g is not a consistent tree"
    if st == "panic" then
      return .propfail "compose::<false> panicked on dimension-compatible operands"
    let hd ← pTree; let gd' ← pTree; let pts ← pPoints
    if f.size ≥ 3 && g.size ≥ 3 then tag "nt"
    if fd.dump.K == 4 then tag "K4"
    -- property, direct: the right operand is unchanged
    if !dumpEq gd.dump gd'.dump then return .propfail "compose changed its right operand"
    let some h := hd.abs | return .propfail "result of compose is not a consistent tree"
    -- property, direct on the sampled inputs: h(x) = g(f(x)), undefinedness included
    let spec : List Q → Option (List Q) := fun x => (PT.eval f x).bind (PT.eval g)
    let (bad, inexact) := firstEvalDiff h spec pts
    if let some (x, want, got) := bad then
      return .propfail s!"compose: at input {showVec x} g(f(x)) = {showOptVec want} but the composed tree evaluates to {showEval got}"
    -- property, direct: nodes of f keep index, parent and slot
    let keeps := fd.dump.nodes.all (fun nd =>
      match hd.dump.nodes.find? (fun x => x.idx == nd.idx) with
      | none => false
      | some nd' => nd'.parent == nd.parent &&
          (nd.isleaf || nd'.children == nd.children))
    if !keeps then return .propfail "compose: a node of the left operand lost its index or position"
    if !noDup h.indices then return .propfail "compose: duplicate node index in the result"
    -- correspondence: the model's composition is the same tree (modulo indices of new nodes)
    let m := PT.compose f g
    match treeCmp f.indices true m h with
    | .same => if inexact then pure (.inexact "eval") else pure .ok
    | .close =>
      if tiny then
        match pts.find? (fun p => PT.eval h p.1 != spec p.1) with
        | some p => pure (.propfail s!"compose: at input {showVec p.1} g(f(x)) = {showOptVec (spec p.1)} but the terminal stored in the composed tree maps it to {showOptVec (PT.eval h p.1)} (exact data: coefficients far below f64::EPSILON are the function)")
        | none => pure (.diverge "compose: model tree differs from the implementation's tree in coefficients below 2^-40 (exact data)")
      else pure (.inexact "tree")
    | .different => pure (.diverge "compose: model tree differs from the implementation's tree (structure, maps, states or kept indices)")
  | "apply_func" =>
    let tiny ← (do if (← peek?) == some "tiny" then let _ ← tok; pure true else pure false)
    if tiny then tag "tiny"
    let fd ← pTree; let a ← pAff; expect "|"
    let st ← tok
    let some f := fd.abs | return .skip "operand is not a consistent tree"
    if st == "panic" then return .propfail "apply_func panicked on a dimension-compatible argument"
    let hd ← pTree; let pts ← pPoints
    if f.size ≥ 3 then tag "nt"
    let some h := hd.abs | return .propfail "result of apply_func is not a consistent tree"
    let spec : List Q → Option (List Q) := fun x => (PT.eval f x).map a.apply
    let (bad, inexact) := firstEvalDiff h spec pts
    if let some (x, want, got) := bad then
      return .propfail s!"apply_func: at input {showVec x} a(f(x)) = {showOptVec want} but the tree evaluates to {showEval got}"
    match treeCmp f.indices true (PT.applyFunc f a) h with
    | .same => if inexact then pure (.inexact "eval") else pure .ok
    | .close =>
      if tiny then
        match pts.find? (fun p => PT.eval h p.1 != spec p.1) with
        | some p => pure (.propfail s!"apply_func: at input {showVec p.1} a(f(x)) = {showOptVec (spec p.1)} but the terminal stored in the tree maps it to {showOptVec (PT.eval h p.1)} (exact data)")
        | none => pure (.diverge "apply_func: model tree differs from the implementation's tree in coefficients below 2^-40 (exact data)")
      else pure (.inexact "tree")
    | .different => pure (.diverge "apply_func: model tree differs from the implementation's tree")
  | _ => throw s!"unknown C02 op {op}"

end AV.Judge
