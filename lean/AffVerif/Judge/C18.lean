import AffVerif.Judge.C09
import AffVerif.Model.Arch
/-! Judge for C18: Architecture call sequences, shapes, distillation of accepted architectures, split law, read_layers. -/
namespace AV.Judge

def pLayer : P (Layer Q) := do
  let k ← tok
  match k with
  | "linear" => pure (Layer.linear (← pAff))
  | "relu" => pure (Layer.relu (← pNat))
  | "leaky" => let i ← pNat; let a ← pNum; pure (Layer.leakyRelu i a)
  | "hard_tanh" => pure (Layer.hardTanh (← pNat))
  | "hard_sigmoid" => pure (Layer.hardSigmoid (← pNat))
  | "argmax" => pure Layer.argmax
  | "class_char" => pure (Layer.classChar (← pNat))
  | _ => throw s!"bad layer '{k}'"

def layerEq : Layer Q → Layer Q → Bool
  | .linear a, .linear b => cmpAff a b == .same
  | .relu i, .relu j => i == j
  | .leakyRelu i a, .leakyRelu j b => i == j && a == b
  | .hardTanh i, .hardTanh j => i == j
  | .hardSigmoid i, .hardSigmoid j => i == j
  | .argmax, .argmax => true
  | .classChar i, .classChar j => i == j
  | _, _ => false

def layerName : Layer Q → String
  | .linear a => s!"linear({a.indim}->{a.outdim})"
  | .relu i => s!"relu({i})"
  | .leakyRelu i _ => s!"leaky({i})"
  | .hardTanh i => s!"hard_tanh({i})"
  | .hardSigmoid i => s!"hard_sigmoid({i})"
  | .argmax => "argmax"
  | .classChar c => s!"class_char({c})"

def errName : ShapeErr → String
  | .dim => "dim"
  | .index => "index"

/-- output dimension of the network built so far, by running the layer list on a zero vector -/
def outDimOf (consts : NetConsts Q) (n : Nat) (layers : List (Layer Q)) : Nat :=
  (netEval consts layers (zeros n)).length

def judgeC18 : P Verdict := do
  let kind ← tok
  tag kind
  let consts : NetConsts Q := ⟨3, ratOfMantExp 6004799503160661 (-55), (1 : Q) / 2, fun k => (k : Q)⟩
  match kind with
  | "arch" =>
    let n0 ← pNat
    let ncalls ← pNat
    let mut A : Arch Q := Arch.new n0
    for _ in [0:ncalls] do
      expect ";"
      let call ← tok
      tag call
      let model : Except ShapeErr (Arch Q) ← (match call with
        | "linear" => do pure (A.linear (← pAff))
        | "partial_relu" => do pure (A.partialAct Layer.relu (← pNat))
        | "relu" => pure (.ok (A.fullAct Layer.relu))
        | "partial_leaky_relu" => do let i ← pNat; let a ← pNum; pure (A.partialAct (fun j => Layer.leakyRelu j a) i)
        | "leaky_relu" => do let a ← pNum; pure (.ok (A.fullAct (fun j => Layer.leakyRelu j a)))
        | "partial_hard_tanh" => do pure (A.partialAct Layer.hardTanh (← pNat))
        | "hard_tanh" => pure (.ok (A.fullAct Layer.hardTanh))
        | "partial_hard_sigmoid" => do pure (A.partialAct Layer.hardSigmoid (← pNat))
        | "argmax" => pure A.argmax
        | _ => throw s!"unknown builder call {call}")
      expect "|"
      let res ← tok
      let shape ← pNat
      let nops ← pNat
      match model, res with
      | .ok A', "ok" =>
        A := A'
      | .error e, r =>
        if r == "ok" then
          return .propfail s!"[C18] builder call {call} was accepted although it is not dimension-compatible (current shape {A.currentShape})"
        if r != errName e then return .diverge s!"builder call {call}: error kind model={errName e} impl={r}"
      | .ok _, r => return .propfail s!"[C18] builder call {call} was rejected ({r}) although it is dimension-compatible (current shape {A.currentShape})"
      -- current shape = output dimension of the network built so far
      let od := outDimOf consts n0 (A.ops.map (·.1))
      if shape != od then
        return .propfail s!"[C18] after {call}: current_shape = {shape} but the network built so far has output dimension {od}"
      if shape != A.currentShape || nops != A.ops.length then
        return .diverge s!"after {call}: shape/ops model=({A.currentShape},{A.ops.length}) impl=({shape},{nops})"
    expect ";;"
    let nl ← pNat
    let ops ← pMany nl (do
      let l ← pLayer
      let st ← tok
      pure (l, (st.drop 1).toString.toNat?.getD 0))
    -- a disagreement on the queued operators is reported after the property oracles below had their say
    let mut pending : Option String := none
    if ops.length != A.ops.length || !(ops.zip A.ops).all (fun ((l, s), (l', s')) => layerEq l l' && s == s') then
      pending := some s!"queued operators differ: model {A.ops.map (fun o => (layerName o.1, o.2))} impl {ops.map (fun o => (layerName o.1, o.2))}"
    if nl ≥ 3 then tag "nt"
    -- distillation of the accepted architecture
    expect ";;"
    let npts ← pNat
    let pts ← pMany npts pVec
    let wt ← tok
    if wt == "wholepanic" then
      return .propfail s!"[C18] the accepted architecture {A.ops.map (fun o => layerName o.1)} panics during distillation"
    let evW ← pEvals npts
    let layers := A.ops.map (·.1)
    let mut inexact := false
    for (x, e) in pts.zip evW do
      match e with
      | .val got =>
        match optVecCmp (some (netEval consts layers x)) got with
        | .same => pure ()
        | .close => inexact := true
        | .different =>
          if nearBreakpoint consts layers x then inexact := true
          else return .propfail s!"[C01] distilled architecture at {showVec x}: network {showVec (netEval consts layers x)} tree {showOptVec got}"
      | .panic => return .propfail "[C18] evaluate panics on the distilled architecture"
    -- split law
    expect ";;"
    let nsplit ← pNat
    for _ in [0:nsplit] do
      expect "split"
      let k ← pNat
      let st ← tok
      match st with
      | "panic" => return .propfail s!"[C18] split at {k}: distilling / composing the two halves panics"
      | "err" =>
        let e ← tok
        return .propfail s!"[C18] split at {k}: extract_range failed with {e}"
      | _ =>
        let sa ← pNat; let sb ← pNat; let sc ← pNat
        let evS ← pEvals npts
        let headDim := outDimOf consts n0 (layers.take k)
        if sa != headDim then
          return .propfail s!"[C18] split at {k}: extract_range(0,{k}).current_shape = {sa} but the network {(layers.take k).map layerName} has output dimension {headDim}"
        if sb != headDim then
          return .propfail s!"[C18] split at {k}: extract_range({k},{layers.length}).input_shape = {sb} but the head produces {headDim} values"
        match A.extractRange 0 k, A.extractRange k A.ops.length with
        | .ok a, .ok b =>
          if (sa, sb, sc) != (a.currentShape, b.inputShape, b.currentShape) then
            if pending.isNone then pending := some s!"split at {k}: shapes model=({a.currentShape},{b.inputShape},{b.currentShape}) impl=({sa},{sb},{sc})"
        | _, _ => if pending.isNone then pending := some s!"split at {k}: model rejects the range"
        for ((x, e), w) in (pts.zip evS).zip evW do
          match e, w with
          | .val a, .val b =>
            match optVecCmp a b with
            | .different =>
              -- with the non-dyadic hard-sigmoid slope the two distillations round differently; an input whose exact
              -- evaluation comes within 1e-9 of a breakpoint or tie is excluded (as in C01)
              if nearBreakpoint consts layers x then inexact := true
              else return .propfail s!"[C18] split at {k}: the composed halves give {showOptVec a} at {showVec x}, the whole tree {showOptVec b}"
            | .close => inexact := true
            | .same => pure ()
          | _, _ => return .propfail s!"[C18] split at {k}: evaluate panics"
    expect ";;"
    expect "range"
    let s ← pNat; let e ← pNat
    let r ← tok
    match A.extractRange s e, r with
    | .ok a, "ok" =>
      let len ← pNat; let ish ← pNat; let csh ← pNat
      if (len, ish, csh) != (a.ops.length, a.inputShape, a.currentShape) then
        return .diverge s!"extract_range({s},{e}): model=({a.ops.length},{a.inputShape},{a.currentShape}) impl=({len},{ish},{csh})"
    | .error er, r => if r != errName er then return .diverge s!"extract_range({s},{e}): model error {errName er} impl {r}"
    | .ok _, r => return .diverge s!"extract_range({s},{e}): model ok impl {r}"
    if let some msg := pending then return .diverge msg
    pure (if inexact then .inexact "values" else .ok)
  | "npz" =>
    let ne ← pNat
    let entries ← pMany ne (do
      let name ← tok
      let t ← tok
      if t == "W" then pure (name, some (← pAff)) else pure (name, none))
    expect "|"
    let st ← tok
    let names := entries.map (·.1)
    let arrays : String → Option (Aff Q) := fun nm => (entries.find? (fun e => e.1 == nm)).bind (·.2)
    if ne ≥ 6 then tag "nt"
    if names.any (fun nm => (entryIndex nm).getD 0 ≥ 10) then tag "index>=10"
    match readLayers names arrays, st with
    | .ok ls, "ok" =>
      let n ← pNat
      let got ← pMany n pLayer
      if got.length != ls.length || !(got.zip ls).all (fun (a, b) => layerEq a b) then
        return .propfail s!"[C18] read_layers returned {got.map layerName} but the file describes {ls.map layerName} (index order, one activation per neuron of the preceding linear layer)"
      pure .ok
    | .ok ls, r => return .propfail s!"[C18] read_layers failed ({r}) on a file describing {ls.map layerName}"
    | .panic, "panic" => pure .ok
    | .err, "err" => pure .ok
    | _, r => return .diverge s!"read_layers: model and implementation disagree on the failure mode (impl {r})"
  | _ => throw s!"unknown C18 kind {kind}"

end AV.Judge
