import AffVerif.Judge.Parse
/-! Verdicts and comparison helpers of the judge (untrusted glue). -/
namespace AV.Judge

inductive Verdict where
  | ok
  | inexact (msg : String)
  | skip (msg : String)
  | diverge (msg : String)
  | propfail (msg : String)

def Verdict.render : Verdict → String
  | .ok => "OK"
  | .inexact m => s!"INEXACT {m}"
  | .skip m => s!"SKIP {m}"
  | .diverge m => s!"DIVERGE {m}"
  | .propfail m => s!"PROPFAIL {m}"

def absQ (a : Q) : Q := if a < 0 then -a else a

/-- equal, or equal up to rounding noise (relative 2⁻⁴⁰) — the latter is reported as INEXACT, never as OK -/
def ratClose (a b : Q) : Bool :=
  a == b || decide (absQ (a - b) * (2 : Q) ^ 40 ≤ max 1 (max (absQ a) (absQ b)))

def showQ (q : Q) : String := toString q
def showVec (v : List Q) : String := "[" ++ ", ".intercalate (v.map showQ) ++ "]"
def showAff (f : Aff Q) : String :=
  s!"(mat={f.mat.map showVec} bias={showVec f.bias} indim={f.indim})"

inductive Cmp | same | close | different
deriving DecidableEq

def cmpVec (a b : List Q) : Cmp :=
  if a == b then .same
  else if a.length == b.length && (a.zip b).all (fun p => ratClose p.1 p.2) then .close
  else .different

def Cmp.and : Cmp → Cmp → Cmp
  | .same, c => c
  | .close, .different => .different
  | .close, _ => .close
  | .different, _ => .different

def cmpMat (a b : Mat Q) : Cmp :=
  if a.length != b.length then .different
  else (a.zip b).foldl (fun c p => c.and (cmpVec p.1 p.2)) .same

def cmpAff (a b : Aff Q) : Cmp :=
  if a.indim != b.indim then .different else (cmpMat a.mat b.mat).and (cmpVec a.bias b.bias)

/-- comparison of two maps whose coefficients are results of floating-point sums of products (composition of layers):
    an entry that is small because large terms cancel carries the rounding error of those terms, so closeness is judged
    against the largest magnitude occurring in the two maps (relative 2⁻⁴⁰ of it), not against the entry itself -/
def cmpAffScaled (a b : Aff Q) : Cmp :=
  if a.indim != b.indim || a.mat.length != b.mat.length || a.bias.length != b.bias.length
      || !((a.mat.zip b.mat).all (fun p => p.1.length == p.2.length)) then .different
  else
    let ea := a.mat.flatMap id ++ a.bias
    let eb := b.mat.flatMap id ++ b.bias
    if ea == eb then .same
    else
      let scale := (ea ++ eb).foldl (fun m v => max m (absQ v)) 1
      if (ea.zip eb).all (fun p => p.1 == p.2 || decide (absQ (p.1 - p.2) * (2 : Q) ^ 40 ≤ scale)) then .close
      else .different

def Cmp.verdict (c : Cmp) (what : String) (model impl : String) : Verdict :=
  match c with
  | .same => .ok
  | .close => .inexact what
  | .different => .diverge s!"{what} model={model} impl={impl}"

/-- the result printed by the harness for a call that returns an affine map / a vector / panics -/
inductive Res where
  | aff (f : Aff Q)
  | vec (v : List Q)
  | panic
  | differ (what : String)

def pRes : P Res := do
  let t ← tok
  if t == "panic" then tag "panics" else tag "nt"
  match t with
  | "aff" => pure (.aff (← pAff))
  | "vec" => pure (.vec (← pVec))
  | "panic" => pure .panic
  | "differ" => pure (.differ (← tok))
  | _ => throw s!"bad result tag '{t}'"

/-- an input on which two affine maps of the same shape differ (origin or a unit vector) -/
def affDiffPoint (a b : Aff Q) : Option (List Q) :=
  if a.indim != b.indim || a.mat.length != b.mat.length then none else
  let pts : List (List Q) := zeros a.indim :: (List.range a.indim).map (fun i => unitVec a.indim i 1)
  pts.find? (fun x => a.apply x != b.apply x)

/-- compare a model result (`none` = the call is expected to panic) with the implementation's.
    A coefficient difference of an affine map is a difference of the denoted function: the judge exhibits
    an input on which the two maps differ, which makes the case a failure of the property itself. -/
def cmpResAff (what : String) (model : Option (Aff Q)) (impl : Res) : Verdict :=
  match model, impl with
  | _, .differ w => .propfail s!"{what}: variants of the same call disagree ({w})"
  | none, .panic => .ok
  | none, .aff f => .diverge s!"{what}: model rejects the call, implementation returned {showAff f}"
  | some m, .panic => .propfail s!"{what}: implementation panicked on dimension-compatible arguments, expected {showAff m}"
  | some m, .aff f =>
    match cmpAff m f with
    | .same => .ok
    | .close => .inexact what
    | .different =>
      match affDiffPoint m f with
      | some x => .propfail s!"{what}: at input {showVec x} expected {showVec (m.apply x)} got {showVec (f.apply x)}; expected map {showAff m} got {showAff f}"
      | none => .propfail s!"{what}: wrong shape or coefficients: expected {showAff m} got {showAff f}"
  | _, .vec _ => .diverge s!"{what}: unexpected result kind"

def cmpResVec (what : String) (model : Option (List Q)) (impl : Res) : Verdict :=
  match model, impl with
  | _, .differ w => .propfail s!"{what}: variants of the same call disagree ({w})"
  | none, .panic => .ok
  | none, .vec v => .diverge s!"{what}: model rejects the call, implementation returned {showVec v}"
  | some m, .panic => .propfail s!"{what}: implementation panicked on dimension-compatible arguments, expected {showVec m}"
  | some m, .vec v =>
    match cmpVec m v with
    | .same => .ok
    | .close => .inexact what
    | .different => .propfail s!"{what}: expected {showVec m} got {showVec v}"
  | _, .aff _ => .diverge s!"{what}: unexpected result kind"

end AV.Judge
