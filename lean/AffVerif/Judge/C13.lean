import AffVerif.Judge.C12
import AffVerif.Model.Stats
/-!
Judge for C13: item streams and size hints of the three traversals under a skip schedule, and the tree metrics,
against the machines (correspondence) and against the reference traversals / direct definitions (property).
-/
namespace AV.Judge

structure Row where
  a : Nat
  b : Nat
  c : Nat
  lb : Nat
  ub : Nat

def pRow : P Row := do
  let a ← pNat; let b ← pNat; let c ← pNat; let lb ← pNat; let ub ← pNat
  pure ⟨a, b, c, lb, ub⟩

def showTriples (l : List (Nat × Nat × Nat)) : String := toString l

def meanQ (l : List Nat) : Q := ((l.foldl (· + ·) 0 : Nat) : Q) / ((l.length : Nat) : Q)

def varQ (l : List Nat) : Q :=
  let m := meanQ l
  (l.foldl (fun (acc : Q) (d : Nat) => acc + ((d : Q) - m) * ((d : Q) - m)) (0 : Q)) / ((l.length - 1 : Nat) : Q)

def closeTo (exact : Q) (impl : Option Q) : Bool :=
  match impl with
  | none => false
  | some v => absQ (v - exact) * 1000000000 ≤ max 1 (absQ exact)

def judgeC13 : P Verdict := do
  let d ← pDump pNat
  let kind ← tok
  tag kind
  let start ← pNat
  let skl ← pNatList
  let pre ← pNat
  if pre > 0 then tag "pre-skip"
  expect "|"
  let lb0 ← pNat; let ub0 ← pNat
  let n ← pNat
  let rows ← pMany n pRow
  expect ";"
  let numNodes ← pNat; let numTerm ← pNat; let depth ← pNat
  let plen ← pNat
  let path ← pMany plen (do let i ← pNat; let l ← pNat; pure (i, l))
  let nodeIdx ← pNatList; let termIdx ← pNatList; let decIdx ← pNatList
  let dmin ← pNumOpt; let dmean ← pNumOpt; let dvar ← pNumOpt; let dmax ← pNumOpt
  let viaIter ← pNatList
  let viaEdges ← pNatList
  let edgeIt ← pNatList; let nodeIt ← pNatList; let termIt ← pNatList; let decIt ← pNatList; let revIdx ← pNatList
  let some t := absDump d | return .propfail "dump is not a consistent tree"
  let some s := t.find? start | return .diverge "start node not found"
  let sk : Nat → Nat := fun k => skl.getD k 0
  if skl.any (· ≠ 0) then tag "skips"
  if start != t.idx then tag "inner-start"
  if t.size ≥ 5 then tag "nt"
  let fuel := t.size + 2
  -- machine and reference streams as (a,b,c) triples, machine hints
  let (mach, ref, h0) : List (Nat × Nat × Nat × Nat × Nat) × List (Nat × Nat × Nat) × (Nat × Nat) :=
    match kind with
    | "dfs" =>
      let m := Dfs.skipN pre (Dfs.new t s)
      ((Dfs.run sk fuel m 0).map (fun r => (r.1.depth, r.1.idx, r.1.nrem, r.2.1, r.2.2)),
       (refDfsT sk 0 s 0 0).1.map (fun i => (i.depth, i.idx, i.nrem)), (m.lb, m.ub))
    | "edge" =>
      let m := DfsE.new t s
      ((DfsE.run sk fuel m 0).map (fun r => (r.1.src, r.1.label, r.1.dest, r.2.1, r.2.2)),
       (refEdgeK sk s.idx 0 s.kids 0).1.map (fun i => (i.src, i.label, i.dest)), (m.lb, m.ub))
    | _ =>
      let m := BfsM.skipN pre (BfsM.new t s)
      ((BfsM.run sk fuel m 0).map (fun r => (r.1.depth, r.1.idx, r.1.nrem, r.2.1, r.2.2)),
       (ITree.refBfs sk s).map (fun i => (i.depth, i.idx, i.nrem)), (m.lb, m.ub))
  let implItems := rows.map (fun r => (r.a, r.b, r.c))
  -- property: the stream is the reference traversal
  if implItems != ref then
    return .propfail s!"{kind} traversal from {start} with skips {skl}: expected {showTriples ref} got {showTriples implItems}"
  -- property: size_hint brackets the number of items still to come (if skip_subtree is not called again):
  -- the reference traversal under the schedule truncated after position k tells how many those are
  let refLen : (Nat → Nat) → Nat := fun sk' =>
    match kind with
    | "dfs" => (refDfsT sk' 0 s 0 0).1.length
    | "edge" => (refEdgeK sk' s.idx 0 s.kids 0).1.length
    | _ => (ITree.refBfs sk' s).length
  let total0 := refLen (fun _ => 0)
  if !(lb0 ≤ total0 && total0 ≤ ub0) then
    return .propfail s!"{kind} from {start}: initial size_hint ({lb0},{ub0}) does not bracket {total0} items"
  let mut k := 0
  for r in rows do
    let remaining := refLen (fun j => if j ≤ k then sk j else 0) - (k + 1)
    if !(r.lb ≤ remaining && remaining ≤ r.ub) then
      return .propfail s!"{kind} from {start} skips {skl}: after item {k} size_hint ({r.lb},{r.ub}) does not bracket {remaining} remaining items"
    k := k + 1
  -- metrics against direct definitions
  if numNodes != s.size then return .propfail s!"num_nodes({start}) = {numNodes}, direct count {s.size}"
  if numTerm != t.numTerminals then return .propfail s!"num_terminals = {numTerm}, direct count {t.numTerminals}"
  if depth != t.height then return .propfail s!"depth = {depth}, direct computation {t.height}"
  if some path != t.pathTo? start then return .propfail s!"path_to_node({start}) = {path}, direct {t.pathTo? start}"
  -- the loop of the code (climb the parent links, reverse) on the model
  if (ITree.pathUp t t.size start).reverse != path then
    return .diverge s!"path_to_node({start}) = {path}, the climbing loop of the model gives {(ITree.pathUp t t.size start).reverse}"
  let allIdx := (t.indices.toArray.qsort (· < ·)).toList
  let terms := ((t.toArena.filter (·.isleaf)).map (·.idx)).toArray.qsort (· < ·) |>.toList
  let decs := ((t.toArena.filter (fun nd => !nd.isleaf)).map (·.idx)).toArray.qsort (· < ·) |>.toList
  if nodeIdx != allIdx then return .propfail s!"node_indices {nodeIdx} vs {allIdx}"
  if termIdx != terms then return .propfail s!"terminal_indices {termIdx} vs {terms}"
  if decIdx != decs then return .propfail s!"decision_indices {decIdx} vs {decs}"
  if viaIter != t.preorder.map (·.idx) then return .propfail s!"dfs_iter order {viaIter} vs {t.preorder.map (·.idx)}"
  let edgesRef := (refEdgeK (fun _ => 0) t.idx 0 t.kids 0).1.flatMap (fun e => [e.src, e.label, e.dest])
  if viaEdges != edgesRef then return .propfail s!"dfs_edge_iter {viaEdges} vs {edgesRef}"
  -- the index-order iterators with values
  let arena := (t.toArena.toArray.qsort (fun a b => a.idx < b.idx)).toList
  let valOf : Nat → Nat := fun i => ((arena.find? (·.idx == i)).map (·.val)).getD 0
  let edgeRef := arena.flatMap (fun nd => match nd.parent with
    | none => []
    | some p =>
      let lab := (((arena.find? (·.idx == p)).map (·.children)).getD []).findIdx (· == some nd.idx)
      [p, valOf p, lab, nd.idx, nd.val])
  if edgeIt != edgeRef then return .propfail s!"edge_iter {edgeIt} vs direct {edgeRef}"
  let nodeRef := arena.flatMap (fun nd => [nd.idx, nd.val])
  if nodeIt != nodeRef then return .propfail s!"node_iter {nodeIt} vs direct {nodeRef}"
  let termRef := (arena.filter (·.isleaf)).flatMap (fun nd => [nd.idx, nd.val])
  if termIt != termRef then return .propfail s!"terminals() {termIt} vs direct {termRef}"
  let decRef := (arena.filter (fun nd => !nd.isleaf)).flatMap (fun nd => [nd.idx, nd.val])
  if decIt != decRef then return .propfail s!"decisions() {decIt} vs direct {decRef}"
  if revIdx != allIdx.reverse then return .propfail s!"node_indices().rev() {revIdx} vs {allIdx.reverse}"
  let depths := t.leafDepths 0
  let dminE : Nat := depths.foldl min (depths.headD 0)
  let dmaxE : Nat := depths.foldl max 0
  if dmin != some (dminE : Q) || dmax != some (dmaxE : Q) then
    return .propfail s!"depth_stats min/max {dmin} {dmax} vs {dminE} {dmaxE}"
  if !closeTo (meanQ depths) dmean then return .propfail s!"depth_stats mean {dmean} vs {meanQ depths}"
  if depths.length ≥ 2 then
    if !closeTo (varQ depths) dvar then return .propfail s!"depth_stats variance {dvar} vs {varQ depths}"
  -- correspondence: the running update of `average::Variance` on the depths in traversal order (model: `Welford`)
  if depths.length ≥ 1 then
    let mv := Welford.meanVar (depths.map (fun (d : Nat) => ((d : Nat) : Q)))
    if !closeTo mv.1 dmean then return .diverge s!"depth_stats mean {dmean} vs the running update {mv.1}"
    if depths.length ≥ 2 && !closeTo mv.2 dvar then return .diverge s!"depth_stats variance {dvar} vs the running update {mv.2}"
  -- correspondence with the machines (items and hints)
  if (lb0, ub0) != h0 then return .diverge s!"{kind}: initial hint machine={h0} impl=({lb0},{ub0})"
  let implFull := rows.map (fun r => (r.a, r.b, r.c, r.lb, r.ub))
  if implFull != mach then return .diverge s!"{kind} from {start} skips {skl}: machine stream {mach} impl {implFull}"
  pure .ok

end AV.Judge
