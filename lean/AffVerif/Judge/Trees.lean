import AffVerif.Judge.C12
/-! Common judge helpers for AffTree cases: dumps, comparison modulo the indices of new nodes, evaluation points. -/
namespace AV.Judge

structure TreeDump where
  indim : Nat
  dump : Dump (Content Q)

def pTree : P TreeDump := do
  let n ← pNat
  let d ← pDump pContent
  pure ⟨n, d⟩

/-- the inductive tree of an AffTree dump; `none` if the arena is not a consistent tree -/
def TreeDump.abs (t : TreeDump) : Option (PT Q) := absDump t.dump

def stateEq (a b : NState Q) : Bool := a == b

def stateClass : NState Q → Nat
  | .indeterminate => 0
  | .infeasible => 1
  | .feasible => 2
  | .witness _ => 3

mutual
/-- equality of two trees where the indices of nodes outside `old` are not compared (they only have to be
    outside `old`); maps are compared with `cmpAffScaled`; `exactStates` = compare witnesses by value -/
def treeCmp (old : List Nat) (exactStates : Bool) : PT Q → PT Q → Cmp
  | .node i c ks, .node j d ls =>
    let idxOk := if old.contains i then i == j else !old.contains j
    let stOk := if exactStates then stateEq c.state d.state else stateClass c.state == stateClass d.state
    if !idxOk || !stOk then .different
    else (cmpAffScaled c.aff d.aff).and (kidsCmp old exactStates ks ls)
def kidsCmp (old : List Nat) (exactStates : Bool) : PKids Q → PKids Q → Cmp
  | .nil, .nil => .same
  | .cons none r, .cons none s => kidsCmp old exactStates r s
  | .cons (some a) r, .cons (some b) s => (treeCmp old exactStates a b).and (kidsCmp old exactStates r s)
  | _, _ => .different
end

mutual
/-- all cached states forgotten (for comparing structure and maps only) -/
def eraseStates : PT Q → PT Q
  | .node i c ks => .node i ⟨c.aff, .indeterminate⟩ (eraseStatesK ks)
def eraseStatesK : PKids Q → PKids Q
  | .nil => .nil
  | .cons none r => .cons none (eraseStatesK r)
  | .cons (some t) r => .cons (some (eraseStates t)) (eraseStatesK r)
end

/-- some coefficient of the tree has magnitude ≥ 2^19: the raw residuals `b − a·x` the code compares with 1e-8 are
    then computed with a rounding error of the same order, so a containment decision at the threshold is not determined
    by exact arithmetic -/
def illScaled (t : PT Q) : Bool :=
  t.toArena.any (fun nd => nd.val.aff.mat.any (fun r => r.any (fun v => absQ v ≥ (2 : Q) ^ 19)))

def showState : NState Q → String
  | .indeterminate => "I"
  | .infeasible => "X"
  | .feasible => "F"
  | .witness ws => s!"W{ws.map showVec}"

mutual
/-- compact rendering of a tree for divergence reports -/
def showTree : PT Q → String
  | .node i c ks => s!"({i}:{showState c.state} {c.aff.mat.map showVec}|{showVec c.aff.bias}{showKids ks})"
def showKids : PKids Q → String
  | .nil => ""
  | .cons none r => " _" ++ showKids r
  | .cons (some t) r => " " ++ showTree t ++ showKids r
end

def noDup (l : List Nat) : Bool :=
  let s := (l.toArray.qsort (· < ·)).toList
  (s.zip s.tail).all (fun p => p.1 != p.2)

inductive EvalRes where
  | val (v : Option (List Q))
  | panic
deriving DecidableEq

def pEvalRes : P EvalRes := do
  let t ← tok
  match t with
  | "some" => pure (.val (some (← pVec)))
  | "none" => pure (.val none)
  | "panic" => pure .panic
  | _ => throw s!"bad eval result '{t}'"

def pPoints : P (List (List Q × EvalRes)) := do
  let n ← pNat
  pMany n (do let x ← pVec; let r ← pEvalRes; pure (x, r))

def showOptVec : Option (List Q) → String
  | none => "undefined"
  | some v => showVec v

def showEval : EvalRes → String
  | .val v => showOptVec v
  | .panic => "panic"

def optVecCmp : Option (List Q) → Option (List Q) → Cmp
  | none, none => .same
  | some a, some b => cmpVec a b
  | _, _ => .different

/-! ### Which floating-point evaluations are decided exactly

The implementation evaluates `mat·x − bias ≤ 0` in binary64.  The judge compares it with the exact evaluation of the same
(dumped) tree.  A decision is *float-decisive* at `x` when the sign computed in binary64 provably equals the exact sign:

* **window-exact** — all the products `aₖxₖ` and the bias are multiples of one `2^e` and `Σ|aₖxₖ| + |b| < 2^(e+53)`:
  every partial sum, in any order of summation, is representable, so the computed value is the exact one; or
* **robust** — `|a·x − b| ≥ 2⁻⁴⁰·(Σ|aₖxₖ| + |b|)`, far above the accumulated rounding error of a dot product.

At an input that misses a hyperplane by a hair *and* whose coordinates make the products inexact, binary64 cannot decide
the side; a difference from the exact model there is rounding (INEXACT), not a verdict about the code.  At a
float-decisive input a difference is a genuine one. -/

/-- exponent of the lowest set bit of a dyadic rational (`none` for `0` and for non-dyadic numbers) -/
def dyadicVal? (q : Q) : Option Int :=
  if q == 0 then none
  else
    let d := q.den
    let ld := d.log2
    if 2 ^ ld != d then none
    else
      let n := q.num.natAbs
      -- lowest set bit of n
      let rec low (n : Nat) (fuel : Nat) (k : Nat) : Nat :=
        match fuel with
        | 0 => k
        | f+1 => if n % 2 == 1 then k else low (n / 2) f (k+1)
      some ((low n (n.log2 + 1) 0 : Nat) - (ld : Int))

def pow2Q (e : Int) : Q := if e ≥ 0 then (2 : Q) ^ e.toNat else 1 / (2 : Q) ^ (-e).toNat

/-- one row `a·x − b` : is its sign decided in binary64 as in exact arithmetic? -/
def rowDecisive (a : List Q) (b : Q) (x : List Q) : Bool :=
  let terms := (a.zip x).map (fun p => p.1 * p.2) ++ [b]
  let nz := terms.filter (· != 0)
  let s := nz.foldl (fun acc t => acc + absQ t) 0
  let m := dot a x - b
  if nz.isEmpty then true
  else
    let robust := decide (absQ m * (2 : Q) ^ 40 ≥ s)
    let window :=
      match nz.foldl (fun (acc : Option Int) t => match acc, dyadicVal? t with
                        | some e, some v => some (min e v) | _, _ => none) (some 4096) with
      | some e => decide (s < pow2Q (e + 53))
      | none => false
    robust || window

/-- every row of an affine map is computed without rounding in binary64 -/
def affWindowExact (f : Aff Q) (x : List Q) : Bool :=
  (f.mat.zip f.bias).all (fun rb =>
    let terms := (rb.1.zip x).map (fun p => p.1 * p.2) ++ [rb.2]
    let nz := terms.filter (· != 0)
    let s := nz.foldl (fun acc t => acc + absQ t) 0
    nz.isEmpty ||
      (match nz.foldl (fun (acc : Option Int) t => match acc, dyadicVal? t with
                        | some e, some v => some (min e v) | _, _ => none) (some 4096) with
       | some e => decide (s < pow2Q (e + 53))
       | none => false))

/-- magnitude of the terms summed at a terminal: bounds the rounding error of its value -/
def affScale (f : Aff Q) (x : List Q) : Q :=
  (f.mat.zip f.bias).foldl (fun acc rb =>
    max acc (((rb.1.zip x).map (fun p => absQ (p.1 * p.2))).foldl (· + ·) (absQ rb.2))) 1

mutual
/-- walk the exact path of `x`: are all decisions float-decisive, and how large are the terms at the terminal -/
def PT.faith : PT Q → List Q → Bool × Q
  | .node _ c kids, x =>
    if kids.allNone then (true, affScale c.aff x)
    else
      let ok := (c.aff.mat.zip c.aff.bias).all (fun rb => rowDecisive rb.1 rb.2 x)
      if !ok then (false, 1) else PKids.faithAt kids (c.aff.label x) x
def PKids.faithAt : PKids Q → Nat → List Q → Bool × Q
  | .nil, _, _ => (true, 1)
  | .cons none _, 0, _ => (true, 1)
  | .cons (some t) _, 0, x => PT.faith t x
  | .cons _ r, n+1, x => PKids.faithAt r n x
end

mutual
/-- the exact path of `y` through `g` passes a decision within rounding distance of its breakpoint: a row with
    `0 < |a·y − b| < 2⁻⁴⁰·(Σ|aₖyₖ| + |b|)`.  (An exact tie, `a·y = b`, is not "near": ties are decided by the `≤`.) -/
def PT.nearBreak : PT Q → List Q → Bool
  | .node _ c kids, y =>
    if kids.allNone then false
    else
      (c.aff.mat.zip c.aff.bias).any (fun rb =>
        let m := dot rb.1 y - rb.2
        let s := ((rb.1.zip y).map (fun p => absQ (p.1 * p.2))).foldl (· + ·) (absQ rb.2)
        m != 0 && decide (absQ m * (2 : Q) ^ 40 < s)) || PKids.nearBreakAt kids (c.aff.label y) y
def PKids.nearBreakAt : PKids Q → Nat → List Q → Bool
  | .nil, _, _ => false
  | .cons none _, 0, _ => false
  | .cons (some t) _, 0, y => PT.nearBreak t y
  | .cons _ r, n+1, y => PKids.nearBreakAt r n y
end

/-- compare the implementation's `evaluate` on its tree `h` (exactly as dumped) at `x` with the expected value: a
    difference counts only where binary64 decides every decision on the path like exact arithmetic, and where it exceeds
    the rounding error of the terminal's value -/
def evalCmp (h : PT Q) (x : List Q) (want got : Option (List Q)) : Cmp :=
  match optVecCmp want got with
  | .different =>
    let (dec, scale) := PT.faith h x
    if !dec then .close
    else
      match want, got with
      | some a, some b =>
        if a.length == b.length && (a.zip b).all (fun p => decide (absQ (p.1 - p.2) * (2 : Q) ^ 36 ≤ scale)) then .close
        else .different
      | _, _ => .different
  | c => c

/-- first point where the implementation's `evaluate` result on its tree `h` differs from `spec x`; `inexact` flags
    rounding noise -/
def firstEvalDiff (h : PT Q) (spec : List Q → Option (List Q)) (pts : List (List Q × EvalRes)) :
    Option (List Q × Option (List Q) × EvalRes) × Bool :=
  pts.foldl (fun (acc : Option (List Q × Option (List Q) × EvalRes) × Bool) p =>
    match acc.1 with
    | some _ => acc
    | none =>
      match p.2 with
      | .panic => (some (p.1, spec p.1, p.2), acc.2)
      | .val v =>
        match evalCmp h p.1 (spec p.1) v with
        | .same => acc
        | .close => (none, true)
        | .different => (some (p.1, spec p.1, p.2), acc.2)) (none, false)

end AV.Judge
