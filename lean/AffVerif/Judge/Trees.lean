import AffVerif.Judge.C12
/-! Common judge helpers for AffTree cases: dumps, comparison modulo the indices of new nodes, evaluation points. -/
namespace AV.Judge

structure TreeDump where
  indim : Nat
  dump : Dump (Content Q)

def pTree : P TreeDump := do
  let n ← pNat
  let d ← pDump pContent
  pure ⟨n, d⟩

/-- the inductive tree of an AffTree dump; `none` if the arena is not a consistent tree -/
def TreeDump.abs (t : TreeDump) : Option (PT Q) := absDump t.dump

def stateEq (a b : NState Q) : Bool := a == b

def stateClass : NState Q → Nat
  | .indeterminate => 0
  | .infeasible => 1
  | .feasible => 2
  | .witness _ => 3

mutual
/-- equality of two trees where the indices of nodes outside `old` are not compared (they only have to be
    outside `old`); maps are compared with `cmpAff`; `exactStates` = compare witnesses by value -/
def treeCmp (old : List Nat) (exactStates : Bool) : PT Q → PT Q → Cmp
  | .node i c ks, .node j d ls =>
    let idxOk := if old.contains i then i == j else !old.contains j
    let stOk := if exactStates then stateEq c.state d.state else stateClass c.state == stateClass d.state
    if !idxOk || !stOk then .different
    else (cmpAff c.aff d.aff).and (kidsCmp old exactStates ks ls)
def kidsCmp (old : List Nat) (exactStates : Bool) : PKids Q → PKids Q → Cmp
  | .nil, .nil => .same
  | .cons none r, .cons none s => kidsCmp old exactStates r s
  | .cons (some a) r, .cons (some b) s => (treeCmp old exactStates a b).and (kidsCmp old exactStates r s)
  | _, _ => .different
end

mutual
/-- all cached states forgotten (for comparing structure and maps only) -/
def eraseStates : PT Q → PT Q
  | .node i c ks => .node i ⟨c.aff, .indeterminate⟩ (eraseStatesK ks)
def eraseStatesK : PKids Q → PKids Q
  | .nil => .nil
  | .cons none r => .cons none (eraseStatesK r)
  | .cons (some t) r => .cons (some (eraseStates t)) (eraseStatesK r)
end

/-- some coefficient of the tree has magnitude ≥ 2^19: the raw residuals `b − a·x` the code compares with 1e-8 are
    then computed with a rounding error of the same order, so a containment decision at the threshold is not determined
    by exact arithmetic -/
def illScaled (t : PT Q) : Bool :=
  t.toArena.any (fun nd => nd.val.aff.mat.any (fun r => r.any (fun v => absQ v ≥ (2 : Q) ^ 19)))

def showState : NState Q → String
  | .indeterminate => "I"
  | .infeasible => "X"
  | .feasible => "F"
  | .witness ws => s!"W{ws.map showVec}"

mutual
/-- compact rendering of a tree for divergence reports -/
def showTree : PT Q → String
  | .node i c ks => s!"({i}:{showState c.state} {c.aff.mat.map showVec}|{showVec c.aff.bias}{showKids ks})"
def showKids : PKids Q → String
  | .nil => ""
  | .cons none r => " _" ++ showKids r
  | .cons (some t) r => " " ++ showTree t ++ showKids r
end

def noDup (l : List Nat) : Bool :=
  let s := (l.toArray.qsort (· < ·)).toList
  (s.zip s.tail).all (fun p => p.1 != p.2)

inductive EvalRes where
  | val (v : Option (List Q))
  | panic
deriving DecidableEq

def pEvalRes : P EvalRes := do
  let t ← tok
  match t with
  | "some" => pure (.val (some (← pVec)))
  | "none" => pure (.val none)
  | "panic" => pure .panic
  | _ => throw s!"bad eval result '{t}'"

def pPoints : P (List (List Q × EvalRes)) := do
  let n ← pNat
  pMany n (do let x ← pVec; let r ← pEvalRes; pure (x, r))

def showOptVec : Option (List Q) → String
  | none => "undefined"
  | some v => showVec v

def showEval : EvalRes → String
  | .val v => showOptVec v
  | .panic => "panic"

def optVecCmp : Option (List Q) → Option (List Q) → Cmp
  | none, none => .same
  | some a, some b => cmpVec a b
  | _, _ => .different

/-- first point where the implementation's `evaluate` result differs from `spec x`; `inexact` flags rounding noise -/
def firstEvalDiff (spec : List Q → Option (List Q)) (pts : List (List Q × EvalRes)) :
    Option (List Q × Option (List Q) × EvalRes) × Bool :=
  pts.foldl (fun (acc : Option (List Q × Option (List Q) × EvalRes) × Bool) p =>
    match acc.1 with
    | some _ => acc
    | none =>
      match p.2 with
      | .panic => (some (p.1, spec p.1, p.2), acc.2)
      | .val v =>
        match optVecCmp (spec p.1) v with
        | .same => acc
        | .close => (none, true)
        | .different => (some (p.1, spec p.1, p.2), acc.2)) (none, false)

end AV.Judge
