import AffVerif.Judge.Trees
import AffVerif.Model.Schema
import AffVerif.Model.Spec
/-! Judge for C17: predefined trees against the model trees (exact, indices included) and against the textbook functions. -/
namespace AV.Judge

def pOptNum : P (Option Q) := do
  let some t ← peek? | throw "unexpected end"
  if t == "none" then
    let _ ← tok
    pure none
  else pure (some (← pNum))

/-- the result block `ok <tree> <points>` / `panic` -/
def finishSchema (what : String) (model : Option (PT Q)) (spec : List Q → Option (List Q))
    (exactIdx : Bool := true) (cmpModel : Bool := true) : P Verdict := do
  expect "|"
  let st ← tok
  if st == "panic" then
    tag "panics"
    match model with
    | none => return .ok
    | some _ => return .propfail s!"{what}: generator panicked on valid parameters"
  tag "nt"
  let td ← pTree
  let pts ← pPoints
  let some h := td.abs | return .propfail s!"{what}: generated tree is not a consistent arena"
  -- property, direct: the tree evaluates to the textbook function on the sampled inputs (breakpoints, ties)
  let (bad, inexact) := firstEvalDiff h spec pts
  if let some (x, want, got) := bad then
    return .propfail s!"{what}: at input {showVec x} the definition gives {showOptVec want} but the tree evaluates to {showEval got}"
  if !cmpModel then return (if inexact then .inexact "eval" else .ok)
  match model with
  | none => return .diverge s!"{what}: model rejects the parameters, implementation built a tree"
  | some m =>
    match treeCmp (if exactIdx then m.indices else [m.idx]) true m h with
    | .same => if inexact then pure (.inexact "eval") else pure .ok
    | .close => pure (.inexact "tree")
    | .different => pure (.diverge s!"{what}: generated tree differs from the model tree (structure, coefficients or indices)")

def judgeC17 : P Verdict := do
  let op ← tok
  tag op
  match op with
  | "relu" =>
    let n ← pNat; let r ← pNat
    finishSchema op (if r < n then some (Sch.partialReLU n r) else none)
      (fun x => some (Spec.onComp x r Spec.relu))
  | "leaky" =>
    let n ← pNat; let r ← pNat; let a ← pNum
    finishSchema op (if r < n then some (Sch.partialLeakyReLU n r a) else none)
      (fun x => some (Spec.onComp x r (Spec.leakyRelu a)))
  | "hard_tanh" =>
    let n ← pNat; let r ← pNat; let lo ← pNum; let hi ← pNum
    finishSchema op (if r < n && lo ≤ hi then some (Sch.partialHardTanh n r lo hi) else none)
      (fun x => some (Spec.onComp x r (Spec.hardTanh lo hi)))
  | "hard_shrink" =>
    let n ← pNat; let r ← pNat; let lam ← pNum
    finishSchema op (if r < n then some (Sch.partialHardShrink n r lam) else none)
      (fun x => some (Spec.onComp x r (Spec.hardShrink lam)))
  | "hard_sigmoid" =>
    let n ← pNat; let r ← pNat; let three ← pNum; let sixth ← pNum; let half ← pNum
    if three != 3 || half != (1 : Q) / 2 || !(absQ (6 * sixth - 1) * (2 : Q) ^ 50 ≤ 1) then
      return .propfail "hard_sigmoid: constants of the code are not 3, 1/6 (to f64 precision), 1/2"
    finishSchema op (if r < n then some (Sch.partialHardSigmoid n r three sixth half) else none)
      (fun x => some (Spec.onComp x r (Spec.hardSigmoid three sixth half)))
  | "threshold" =>
    let n ← pNat; let r ← pNat; let thr ← pNum; let v ← pNum
    finishSchema op (if r < n then some (Sch.partialThreshold n r thr v) else none)
      (fun x => some (Spec.onComp x r (Spec.threshold thr v)))
  | "argmax" =>
    let n ← pNat
    finishSchema op (if n ≥ 2 then some (Sch.argmax n (fun k => (k : Q))) else none)
      (fun x => some [((Spec.argmax x : Nat) : Q)])
  | "class_char" =>
    let n ← pNat; let c ← pNat
    finishSchema op (if n ≥ 2 && c < n then some (Sch.classChar n c) else none)
      (fun x => some [if Spec.isMax x c then 1 else 0])
  | "inf_norm" =>
    let n ← pNat; let lo ← pOptNum; let hi ← pOptNum
    finishSchema op (if lo.isSome || hi.isSome then some (Sch.infNorm n lo hi) else none)
      (fun x => some [if Spec.inBounds x lo hi then 1 else 0])
  | "from_poly" =>
    let p ← pAff; let ft ← pAff
    let t ← tok
    let ff ← if t == "some" then (do pure (some (← pAff))) else pure none
    finishSchema op (if p.mat.length > 0 && p.indim == ft.indim then some (Sch.fromPoly p ft ff) else none)
      (fun x => if Poly.memb p x then some (ft.apply x) else ff.map (fun f => f.apply x))
  | "slice" | "sliceP" =>
    let gd ← pTree
    let ref ← pVecOpt
    let some g := gd.abs | return .skip "operand is not a consistent tree"
    let keep := (List.range ref.length).filter (fun j => (ref.getD j none).isNone)
    -- embed a point of the slice into the full space
    let embed : List Q → List Q := fun y =>
      (List.range ref.length).map (fun j =>
        match ref.getD j none with
        | some v => v
        | none => y.getD (keep.findIdx (· == j)) 0)
    let m : PT Q := Sch.removeAxes keep (PT.compose (PT.fromAff 2 (Aff.slice ref)) g)
    finishSchema op (some m) (fun y => PT.eval g (embed y)) false (op == "slice")
  | _ => throw s!"unknown C17 op {op}"

def nodeStatesIdx (t : PT Q) : List (Nat × NState Q) := t.toArena.map (fun nd => (nd.idx, nd.val.state))
def nodeStates (t : PT Q) : List (NState Q) := (nodeStatesIdx t).map (·.2)

/-- C17R: `remove_axes(mask)` on a tree with cached states -/
def judgeC17R : P Verdict := do
  if (← peek?) == some "sweep-panic" then
    return .skip "infeasible_elimination panicked while preparing the operand"
  let n ← pNat
  let mask ← pMany n pNat
  let gd ← pTree
  expect "|"
  let st ← tok
  let some g := gd.abs | return .skip "operand is not a consistent tree"
  if st == "panic" then return .propfail "[C17] remove_axes panicked on a mask of the tree's input dimension"
  let td ← pTree
  let pts ← pPoints
  let some h := td.abs | return .propfail "[C12] remove_axes: the resulting arena is not a consistent tree"
  let keep := (List.range n).filter (fun j => mask.getD j 0 == 1)
  if g.size ≥ 3 then tag "nt"
  let cached := (nodeStates g).any (fun s => s != .indeterminate)
  if cached then tag "cached-states"
  -- property (C05): the dropped columns pin the removed coordinates to 0, every path condition changes: a cached
  -- witness or verdict must not survive
  match (nodeStatesIdx h).find? (fun p => p.2 != .indeterminate) with
  | some (i, s) =>
    return .propfail s!"[C05] remove_axes: node {i} keeps the cached state {showState s} although its path conditions changed (the removed input coordinates are pinned to 0)"
  | none => pure ()
  -- property (C17): the value at the kept coordinates is the value of the tree with the removed coordinates set to 0
  let embed : List Q → List Q := fun y =>
    (List.range n).map (fun j => if mask.getD j 0 == 1 then y.getD (keep.findIdx (· == j)) 0 else 0)
  let (bad, inexact) := firstEvalDiff h (fun y => PT.eval g (embed y)) pts
  if let some (x, want, got) := bad then
    return .propfail s!"remove_axes: at input {showVec x} the tree restricted to the kept axes gives {showOptVec want} but the result evaluates to {showEval got}"
  -- correspondence: the model's `removeAxes`
  match treeCmp g.indices true (Sch.removeAxes keep g) h with
  | .same => if inexact then pure (.inexact "eval") else pure .ok
  | .close => pure (.inexact "tree")
  | .different => pure (.diverge "remove_axes: the resulting tree differs from the model tree (columns, states or indices)")

end AV.Judge
