import AffVerif.Judge.C15
import AffVerif.Model.Mirror
/-!
Judge for `mirror_points` (C05, third clause).

* property: every returned point lies in the polytope it was asked for (within the 1e-8 containment tolerance of the
  code), decided exactly on the implementation's output;
* `normalize`: every row of the dumped normalised polytope is the original row divided by a positive number whose
  square is the sum of the squared coefficients (up to rounding), or the unchanged row when that norm is ≤ EPSILON;
* correspondence: the model's loop, run in exact arithmetic on the dumped normalised polytope, returns in the same
  round with the same candidates (up to accumulated float rounding). A run in which a containment decision of the
  model comes within rounding distance of its threshold (1e-12 per round at the magnitude of the data) is `INEXACT` when
  the outcomes differ.
-/
namespace AV.Judge

def eps10 : Q := ratOfMantExp 7737125245533627 (-86)   -- the f64 `1e-10`
def fac11 : Q := ratOfMantExp 2476979795053773 (-51)   -- the f64 `1.1`

/-- smallest distance of a containment decision to its threshold over the whole model run -/
def mirrorMargin (pn : Aff Q) : List (List Q) → Nat → Q → Q
  | _, 0, m => m
  | pts, k+1, m =>
    let here := pts.foldl (fun acc x => (mirrorDist eps10 pn x).foldl (fun a d => min a (absQ d)) acc) m
    if (pts.filter (mirrorInside eps10 pn)).isEmpty then mirrorMargin pn (pts.map (mirrorStep eps10 fac11 pn)) k here
    else here

def judgeC05M : P Verdict := do
  let p ← pAff
  let pn ← pAff
  let npts ← pNat
  let pts ← pMany npts pVec
  let iters ← pNat
  expect "|"
  let st ← tok
  tag s!"iters-{iters}"
  if st == "panic" then return .propfail "[C05] mirror_points panicked"
  -- normalize: positive scaling by the Euclidean norm
  if pn.mat.length != p.mat.length || !((rowsOf p).zip (rowsOf pn)).all (fun (r, r') => scaledRow r r') then
    return .propfail s!"[C15] normalize: a row is not a positive multiple of the original row ({showAff p} -> {showAff pn})"
  for (r, r') in (rowsOf p).zip (rowsOf pn) do
    let sq := r.1.foldl (fun a v => a + v * v) 0
    if r != r' then
      -- scale s = r_j / r'_j at the largest entry; s² must be the squared norm
      let j := (List.range r.1.length).foldl (fun best i => if absQ (r.1.getD i 0) > absQ (r.1.getD best 0) then i else best) 0
      let s := r.1.getD j 0 / r'.1.getD j 1
      if !(absQ (s * s - sq) ≤ mkRat 1 1000000000 * max 1 sq) then
        return .diverge s!"normalize: row {showVec r.1} was divided by {s}, whose square is not the squared norm {sq}"
    else if sq > mkRat 1 (2 ^ 100) && !(isZeroVec r.1) then
      -- an unchanged row must have a tiny norm or already be normalised
      if !(absQ (sq - 1) ≤ mkRat 1 1000000000) then
        return .diverge s!"normalize: row {showVec r.1} with squared norm {sq} was left unscaled"
  let model := mirrorLoop eps10 fac11 pn pts iters 0
  let margin := mirrorMargin pn pts iters 1
  -- "at the threshold" = within what binary64 loses over the run: 1e-12 per round at the magnitude of the data (the
  -- margin 1e-10 of the code itself is far outside of that: a candidate exactly on a face is *not* accepted)
  let scale : Q := (pts.foldl (fun m x => x.foldl (fun a v => max a (absQ v)) m) (pn.bias.foldl (fun a v => max a (absQ v)) 1))
  let tight := margin ≤ mkRat 1 1000000000000 * scale * ((iters : Nat) + 1 : Nat)
  match st with
  | "none" =>
    match model with
    | none => tag "none"; pure .ok
    | some (_, j) =>
      if tight then pure (.inexact "decision at threshold")
      else pure (.diverge s!"mirror_points returned None, the model finds points in round {j}")
  | "some" =>
    let count ← pNat
    let k ← pNat
    let res ← pMany k pVec
    tag "some"
    if count > 0 then tag "nt"
    -- property oracle on the implementation's output
    for x in res do
      if !Poly.containsTol (mkRat 1 100000000) p x then
        return .propfail s!"[C05] mirror_points returned {showVec x}, which is not in the polytope {showAff p} it was asked for (tolerance 1e-8)"
    if res.isEmpty then return .propfail "[C05] mirror_points returned Some with no point"
    if count ≥ iters then return .propfail s!"[C05] mirror_points reports round {count} of {iters}"
    match model with
    | none =>
      if tight then pure (.inexact "decision at threshold")
      else pure (.diverge s!"mirror_points returned points in round {count}, the model returns None")
    | some (mres, j) =>
      let closeV : List Q → List Q → Bool := fun a b =>
        a.length == b.length && (a.zip b).all (fun (u, v) => absQ (u - v) ≤ mkRat 1 1000000 * max 1 (absQ u))
      if j == count && mres.length == res.length && (mres.zip res).all (fun (a, b) => closeV a b) then pure .ok
      else if tight then pure (.inexact "decision at threshold")
      else pure (.diverge s!"mirror_points: model round {j} points {mres.map showVec}, implementation round {count} points {res.map showVec}")
  | _ => throw s!"bad C05M status {st}"

end AV.Judge
