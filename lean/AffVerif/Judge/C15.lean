import AffVerif.Judge.C10
import AffVerif.Model.LP
/-!
Judge for C15 (constraint clean-up): the result is a sub-sequence of the input rows (up to positive scaling
for `normalize`, or the canonical empty / whole-space polytope), the point set is unchanged (decided exactly,
row by row, with the certified simplex) and `remove_redundant_row_constraints` leaves no row that is implied
by the others by a margin.
-/
namespace AV.Judge

open Simplex

def rowsOf (p : Aff Q) : List (List Q × Q) := p.rows

/-- is `q` a sub-sequence of `p` (rows compared exactly)? -/
def isSubseq : List (List Q × Q) → List (List Q × Q) → Bool
  | [], _ => true
  | _ :: _, [] => false
  | a :: as, b :: bs => if a == b then isSubseq as bs else isSubseq (a :: as) bs

/-- row `(a, b)` is implied by `q`: `max a·x over q ≤ b` (certified), or `q` is empty -/
inductive Implied | yes (slack : Option Q) | no (x : List Q) | unknown (why : String)

def impliedBy (q : Aff Q) (a : List Q) (b : Q) : Implied :=
  match exactLP q (vneg a) with
  | .empty => .yes none
  | .optimal x v => if -v ≤ b then .yes (some (b - (-v))) else .no x
  | .unbounded x d =>
    -- walk along the ray until the row is violated
    let ax := dotQ a x
    let ad := dotQ a d
    if ad > 0 then
      let t : Q := (b - ax) / ad + 1
      .no (vadd x (smul (max t 0) d))
    else .unknown "ray does not increase the row"
  | .undecided w => .unknown w

/-- positive multiple check for `normalize`: `r' = r / s` with `s > 0` (up to rounding) -/
def scaledRow (r : List Q × Q) (r' : List Q × Q) : Bool :=
  let v := r.1 ++ [r.2]
  let v' := r'.1 ++ [r'.2]
  if isZeroVec r.1 then v == v' else
  -- find the scale from the largest entry of the direction part
  let j := (List.range r.1.length).foldl (fun best i => if absQ (r.1.getD i 0) > absQ (r.1.getD best 0) then i else best) 0
  let s := r.1.getD j 0 / r'.1.getD j 1
  r'.1.getD j 0 != 0 && s > 0 &&
    (v.zip v').all (fun (a, a') => absQ (a - s * a') ≤ mkRat 1 1000000000000 * max 1 (absQ a))

def judgeC15 : P Verdict := do
  let op ← tok
  tag op
  let p ← pAff
  let idxs ← if op == "remove_rows" then pNatList else pure []
  expect "|"
  let st ← tok
  let n := p.indim
  if st == "panic" then
    if op == "remove_rows" && !idxs.all (· < p.mat.length) then return .ok
    return .propfail s!"[C15] {op} panicked"
  if st == "err" then
    let _ ← pLog
    return .propfail s!"[C15] {op} returned an error"
  let q ← pAff
  let log ← pLog
  if p.mat.length ≥ 3 then tag "nt"
  let pEmpty := certifiedEmpty p
  let isCanonEmpty := cmpAff q (Poly.empty n) == .same
  let isCanonAll := cmpAff q (Poly.unbounded n) == .same
  -- (a) only rows are dropped
  if op == "normalize" then
    if q.mat.length != p.mat.length || !((rowsOf p).zip (rowsOf q)).all (fun (r, r') => scaledRow r r') then
      return .propfail s!"[C15] normalize: a row is not a positive multiple of the original row"
  else if isCanonEmpty && pEmpty then tag "canonical-empty"
  else if isCanonAll && op == "remove_tautologies" && (rowsOf p).all (fun r => isZeroVec r.1) then tag "canonical-all"
  else if !isSubseq (rowsOf q) (rowsOf p) then
    return .propfail s!"[C15] {op}: the result {showAff q} is not a sub-sequence of the rows of {showAff p}"
  -- (b) same point set: every row of p is implied by q, every row of q by p.
  -- `remove_rows` removes what the caller names (only the sub-sequence clause applies to it); for `normalize`
  -- the rows are rounded quotients, the per-row scaling check above is the statement
  let setCheck := op != "remove_rows" && op != "normalize"
  for (a, b) in (if setCheck then rowsOf p else []) do
    match impliedBy q a b with
    | .no x =>
      let tiny := op == "remove_duplicate_rows" && a.all (fun v => absQ v ≤ mkRat 1 (2 ^ 52))
      return .propfail s!"[C15] {op}: point {showVec x} satisfies the result but violates the dropped row {showVec a} <= {b}{if tiny then " (every coefficient of the dropped row is below f64::EPSILON)" else ""}"
    | _ => pure ()
  for (a, b) in (if setCheck then rowsOf q else []) do
    match impliedBy p a b with
    | .no x => return .propfail s!"[C15] {op}: point {showVec x} of the original set violates the result row {showVec a} <= {b}"
    | _ => pure ()
  -- (c) tightness of remove_redundant
  if op == "remove_redundant" && !isCanonEmpty then
    let rq := rowsOf q
    for i in [0:rq.length] do
      let (a, b) := rq.getD i ([], 0)
      let others : Aff Q := Aff.ofRows n ((rq.take i) ++ (rq.drop (i+1)))
      if others.mat.length > 0 then
        match impliedBy others a b with
        | .yes (some slack) =>
          if slack > tolQ * (1 + absQ b) then
            return .propfail s!"[C15] remove_redundant: the kept row {showVec a} <= {b} is implied by the remaining rows with slack {slack}{freeDirNote others (vneg a) |>.replace "the set" "the remaining set"}"
        | _ => pure ()
  -- correspondence with the model where it is determined
  match op with
  | "remove_tautologies" =>
    if cmpAff (Poly.removeTautologies p) q != .same then return .diverge "remove_tautologies differs from the model"
  | "remove_zero_rows" =>
    if cmpAff (Aff.removeZeroRows p) q != .same then return .diverge "remove_zero_rows differs from the model"
  | "remove_rows" =>
    if cmpAff (Aff.removeRows p idxs) q != .same then return .diverge "remove_rows differs from the model"
  | "remove_duplicate_rows" =>
    -- the model compares the normalised rows exactly ("positive multiple of an earlier row"); the code compares float
    -- quotients with `relative_eq`, which may keep an exact duplicate whose quotients were rounded differently
    let m := Poly.removeDuplicateRows (mkRat 1 (2 ^ 52)) p
    if cmpAff m q != .same then
      if isSubseq (rowsOf m) (rowsOf q) then
        tag "kept-exact-duplicate"
        return .inexact "remove_duplicate_rows kept a row that is an exact positive multiple of an earlier row (rounded normalisation)"
      return .diverge "remove_duplicate_rows differs from the model (a row was dropped that is not a positive multiple of an earlier row)"
  | "remove_redundant" =>
    let eps : Q := mkRat 1 (2 ^ 52)
    let (r, os) := Poly.removeRedundant eps lpOracle p ⟨log, [], 0, 0⟩
    -- the implementation decides `row·x* <= bound + EPSILON` in floating point on a solver vertex; at the
    -- threshold the exact replay may take the other branch, after which its LP questions differ
    let exactData := log.all (fun e => match e.ret with
      | .optimal x => x.all (fun v => v.den ≤ 64)
      | _ => true)
    match r with
    | .ok m =>
      if os.missing > 0 || cmpAff m q != .same then
        if exactData then return .diverge "remove_redundant differs from the model replay"
        else return .inexact "remove_redundant threshold"
    | .err =>
      if exactData then return .diverge "remove_redundant: model replay reports an error"
      else return .inexact "remove_redundant threshold"
  | _ => pure ()
  pure .ok

end AV.Judge
