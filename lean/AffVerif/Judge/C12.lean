import AffVerif.Judge.Common
/-!
Judge for C12 histories on `Tree<usize,K>`: per-step refinement check against the model operations and a
direct decision of arena well-formedness (the dump is the image of an inductive tree under `toArena`).
-/
namespace AV.Judge

def arenaMatches {β : Type} [DecidableEq β] (t : ITree β) (d : Dump β) : Bool :=
  d.root == some t.idx &&
  (let a := sortNodes t.toArena
   let b := sortNodes d.nodes
   a.length == b.length && (a.zip b).all (fun p => anodeEq p.1 p.2))

def dumpEq {β : Type} [DecidableEq β] (a b : Dump β) : Bool :=
  a.root == b.root && a.K == b.K &&
  (let x := sortNodes a.nodes
   let y := sortNodes b.nodes
   x.length == y.length && (x.zip y).all (fun p => anodeEq p.1 p.2))

inductive OpRes where
  | ok (payload : Nat)
  | err (e : String)
  | panic

def pOpRes : P OpRes := do
  let t ← tok
  match t with
  | "ok" => pure (.ok (← pNat))
  | "err" => pure (.err (← tok))
  | "panic" => pure .panic
  | _ => throw s!"bad op result '{t}'"

def terrName : TErr → String
  | .invalidIndex => "invalidIndex"
  | .missingChild => "missingChild"
  | .missingParent => "missingParent"
  | .childExists => "childExists"
  | .rootNode => "rootNode"
  | .panic => "panic"

/-- survivors keep their value (except the target of `update_node`) -/
def survivorsKeep (d d' : Dump Nat) (updTarget : Option Nat) : Bool :=
  d.nodes.all (fun nd =>
    match d'.nodes.find? (fun x => x.idx == nd.idx) with
    | none => true
    | some nd' => nd'.val == nd.val || updTarget == some nd.idx)

def judgeC12 : P Verdict := do
  let nsteps ← pNat
  let d0 ← pDump pNat
  if nsteps ≥ 12 then tag "nt"
  let mut d := d0
  let mut cur : Option (ITree Nat) := none
  -- nodes of trees that a later `add_root` replaced: stored for ever, untouched, unreachable (the documented exception;
  -- model: `Arena.addRoot`, theorem `C12_add_root_exception`)
  let mut garbage : List (ANode Nat) := []
  for step in [0:nsteps] do
    expect ";"
    let op ← tok
    tag op
    match op with
    | "root" =>
      let v ← pNat; expect "|"; let r ← pOpRes; let d' ← pDump pNat
      match r with
      | .ok idx =>
        -- everything stored so far stays as it is and becomes unreachable
        if cur.isSome then
          tag "re-root"
          garbage := garbage ++ d.nodes
        if garbage.any (fun g => g.idx == idx) then
          return .propfail s!"step {step}: add_root returned index {idx} which is in use"
        if !garbage.all (fun g => d'.nodes.any (fun x => anodeEq g x)) then
          return .propfail s!"step {step}: add_root changed a stored node (the replaced tree must stay untouched)"
        let d' : Dump Nat := { d' with nodes := d'.nodes.filter (fun nd => !garbage.any (fun g => g.idx == nd.idx)) }
        let t : ITree Nat := .node idx v (IKids.empty d'.K)
        if !arenaMatches t d' then return .propfail s!"step {step}: add_root did not produce a single-node tree"
        cur := some t; d := d'
      | _ => return .diverge s!"step {step}: add_root failed"
    | _ =>
      let a ← pNat
      let b ← if op == "rmall" then pure 0 else pNat
      let c ← if op == "add" then pNat else pure 0
      expect "|"
      let r ← pOpRes
      let d' ← pDump pNat
      if !garbage.all (fun g => d'.nodes.any (fun x => anodeEq g x)) then
        return .propfail s!"step {step} ({op} {a} {b}): a node of a replaced tree changed (after add_root the old tree stays in the arena, untouched)"
      let d' : Dump Nat := { d' with nodes := d'.nodes.filter (fun nd => !garbage.any (fun g => g.idx == nd.idx)) }
      let some t := cur | return .diverge s!"step {step}: operation before add_root"
      -- direct decision of the property on the implementation's state
      let t'? := absDump d'
      match r with
      | .panic => tag "op-panic"
      | .err _ => tag "op-err"
      | .ok _ => tag "op-ok"
      if t'?.isNone then
        match r with
        | .panic => pure ()   -- a panicking call is outside the property; nothing is claimed about the state
        | _ => return .propfail s!"step {step} ({op} {a} {b}): arena is not a consistent tree afterwards (parent/child links, leaf flags, reachability or len)"
      match r with
      | .err e =>
        if !dumpEq d d' then return .propfail s!"step {step} ({op} {a} {b}): call returned Err({e}) but changed the tree"
      | _ => pure ()
      if !survivorsKeep d d' (if op == "upd" then some a else none) then
        match r with
        | .panic => pure ()
        | _ => return .propfail s!"step {step} ({op} {a} {b}): a surviving node changed its value"
      -- refinement against the model
      let model : Except TErr (ITree Nat × Nat) :=
        match op with
        | "add" =>
          match r with
          | .ok fresh =>
            if t.contains fresh || garbage.any (fun g => g.idx == fresh) then .error .panic   -- flagged below
            else (t.addChildNode a b c fresh).map (fun t' => (t', fresh))
          | _ => (t.addChildNode a b c 0).map (fun t' => (t', 0))
        | "rm" => t.tryRemoveChild a b
        | "rmall" => t.removeAllDescendants a
        | "merge" => (t.mergeChildWithParent a b).map (fun t' => (t', ((t.find? a).map (·.val)).getD 0))
        | "upd" => t.updateNode a c |>.map id
        | _ => .error .panic
      -- `upd` carries its value in the third slot
      let model := if op == "upd" then (t.updateNode a b) else model
      match model, r with
      | .ok (t', pay), .ok pay' =>
        if op == "add" && (t.contains pay' || garbage.any (fun g => g.idx == pay')) then
          return .propfail s!"step {step}: add_child_node returned index {pay'} which is already in use"
        if pay != pay' then return .diverge s!"step {step} ({op} {a} {b}): payload model={pay} impl={pay'}"
        if !arenaMatches t' d' then return .diverge s!"step {step} ({op} {a} {b}): resulting tree differs from the model"
        cur := some t'; d := d'
      | .error .panic, .panic =>
        -- state after a panic is unspecified; continue from whatever the implementation has, if consistent
        match t'? with
        | some t' => cur := some t'; d := d'
        | none => return .skip s!"step {step}: tree inconsistent after a panicking call (outside the property)"
      | .error e, .err e' =>
        if terrName e != e' then return .diverge s!"step {step} ({op} {a} {b}): error kind model={terrName e} impl={e'}"
        d := d'
      | .ok _, .err e' => return .diverge s!"step {step} ({op} {a} {b}): model succeeds, implementation returned Err({e'})"
      | .ok _, .panic => return .propfail s!"step {step} ({op} {a} {b}): implementation panicked on a valid call"
      | .error e, .ok _ => return .diverge s!"step {step} ({op} {a} {b}): model fails with {terrName e}, implementation succeeded"
      | .error e, .panic => return .diverge s!"step {step} ({op} {a} {b}): model returns {terrName e}, implementation panicked"
  pure .ok

end AV.Judge
