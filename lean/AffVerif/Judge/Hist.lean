import AffVerif.Judge.Trees
import AffVerif.Judge.Simplex
import AffVerif.Model.Schema
import AffVerif.Model.Reduce
import AffVerif.Model.Distill
import AffVerif.Check.Cert
/-!
Judge for operation histories on `AffTree<2>` (C03 C04 C05 C06 C07 C08 C11).

Per step: (a) the model operation — with the LP answers and heuristic results the implementation logged —
must reproduce the implementation's tree (correspondence); (b) the property oracles are evaluated on the
implementation's own output: values at the sampled inputs, shape, cached states against exact path
polytopes, effectiveness / idempotence of the clean-ups.  Failures of (b) carry the id of the property
they contradict.
-/
namespace AV.Judge

open Simplex

structure LogEntry where
  poly : Aff Q
  obj : List Q
  real : LPAnswer Q
  ret : LPAnswer Q

def pAnswer : P (LPAnswer Q) := do
  let t ← tok
  match t with
  | "I" => pure .infeasible
  | "U" => pure .unbounded
  | "E" => pure .error
  | "O" =>
    let v ← pVecOpt
    if v.any Option.isNone then
      throw "PROPFAIL [C10] the LP layer returned Optimal with a non-finite coordinate (inf / nan): not a point of the set"
    pure (.optimal (v.map (·.getD 0)))
  | _ => throw s!"bad LP answer '{t}'"

def pLog : P (List LogEntry) := do
  let n ← pNat
  pMany n (do
    let p ← pAff; let o ← pVec; let r ← pAnswer; let q ← pAnswer
    pure ⟨p, o, r, q⟩)

def pTrace : P (List (Nat × NState Q)) := do
  let n ← pNat
  pMany n (do let i ← pNat; let s ← pState; pure (i, s))

/-- oracle state of a replay: the unconsumed LP log, the elimination trace, and the number of questions the
    model asked that the implementation did not -/
structure OState where
  log : List LogEntry
  trace : List (Nat × NState Q)
  missing : Nat
  tol : Q

def takeFirst {γ : Type} (p : γ → Bool) : List γ → Option (γ × List γ)
  | [] => none
  | x :: xs => if p x then some (x, xs) else (takeFirst p xs).map (fun r => (r.1, x :: r.2))

def lpOracle : LPOracle OState Q := fun s poly obj =>
  -- exact match first; on inexact data (rounded f64 products) the closest-looking question is taken
  let exact := takeFirst (fun e => e.poly == poly && e.obj == obj) s.log
  let found := match exact with
    | some r => some r
    | none => takeFirst (fun e => cmpAff e.poly poly != Cmp.different && cmpVec e.obj obj != Cmp.different) s.log
  match found with
  | some (e, rest) => (e.ret, { s with log := rest })
  | none => (.error, { s with missing := s.missing + 1 })

/-- `mirror_points` is a float heuristic; the replay takes its result from the state the implementation
    logged for the node. When the logged witness is what an unconsumed LP answer for the same polytope
    produces, the implementation's `phase_one` (8 iterations) had failed and the witness came from the LP. -/
def mirrorOracle : MirrorOracle OState Q := fun s node poly _ k =>
  match s.trace.find? (fun e => e.1 == node) with
  | some (_, .witness ws) =>
    if k == 8 && s.log.any (fun e => e.poly == poly && e.obj.all (· == 0) &&
        (match e.ret with
         | .optimal x => ws == [x] || !Poly.containsTol s.tol poly x
         | _ => false)) then (none, s)
    else (some ws, s)
  | _ => (none, s)

def oracles : Oracles OState Q := ⟨lpOracle, mirrorOracle⟩

/-! ### path polytopes of every node -/

structure NodeInfo where
  idx : Nat
  isRoot : Bool
  isLeaf : Bool
  nChildren : Nat
  state : NState Q
  path : List (Aff Q)

mutual
def nodeInfos : PT Q → Bool → List (Aff Q) → List NodeInfo
  | .node i c ks, root, path =>
    ⟨i, root, ks.allNone, ks.count, c.state, path⟩ :: kidsInfos ks c.aff 0 path
def kidsInfos : PKids Q → Aff Q → Nat → List (Aff Q) → List NodeInfo
  | .nil, _, _, _ => []
  | .cons none r, a, l, path => kidsInfos r a (l+1) path
  | .cons (some t) r, a, l, path => nodeInfos t false (path ++ [halfspace a l]) ++ kidsInfos r a (l+1) path
end

mutual
def isTotal : PT Q → Bool
  | .node _ _ ks => ks.allNone || (ks.count == ks.length && kidsTotal ks)
def kidsTotal : PKids Q → Bool
  | .nil => true
  | .cons none r => kidsTotal r
  | .cons (some t) r => isTotal t && kidsTotal r
end

/-- move every face by `d` in *geometric* terms: a row `a·x ≤ b` is moved by `d·max(1, ‖a‖₁)` (the 1-norm bounds the
    Euclidean norm from above, so "shrunk by the margin" means at least that much Euclidean room and "grown by the
    margin" at least that much Euclidean slack — a margin in raw residuals would be meaningless for rows of large norm) -/
def shift (p : Aff Q) (d : Q) : Aff Q :=
  -- a row with all-zero coefficients is a tautology or a contradiction whatever `x` is: it has no face to move
  { p with bias := (p.mat.zip p.bias).map (fun (a, b) => if isZeroVec a then b else b + d * max 1 (a.foldl (fun s v => s + absQ v) 0)) }

def margin : Q := mkRat 1 1000000

/-- a point of the polytope shrunk by `margin` in every row: witness that the set is non-empty by a margin -/
def pointInShrunkR (radius : Q) (n : Nat) (path : List (Aff Q)) : Option (List Q) :=
  let p0 := shift (Poly.intersectionN n path) (-margin)
  -- "non-empty by a margin" is meant at the scale of the data: inside the box [−radius, radius]ⁿ
  let p := Poly.intersection p0 (Poly.hypercube n radius)
  match findPoint p.mat p.bias n with
  | some x => if Poly.memb p x then some x else none
  | none => none

def pointInShrunk (n : Nat) (path : List (Aff Q)) : Option (List Q) := pointInShrunkR 1000000 n path

/-- is the polytope grown by `margin` certainly empty? (verified Farkas certificate) -/
def emptyEvenGrown (n : Nat) (path : List (Aff Q)) : Bool :=
  let p := shift (Poly.intersectionN n path) margin
  match findFarkas p.mat p.bias n with
  | some y => checkInfeasible n (polyRows p) y
  | none => false

/-! ### direct property oracles on a dumped tree -/

/-- C05: every stored witness satisfies its path (within `tol`), no node marked infeasible has a region that
    is non-empty by a margin -/
def cacheViolation (tol : Q) (n : Nat) (t : PT Q) : Option String :=
  (nodeInfos t true []).findSome? (fun nd =>
    match nd.state with
    | .witness ws =>
      let poly := Poly.intersectionN n nd.path
      if nd.isRoot then none else
      -- `contains` is evaluated in f64: allow the rounding error of `b − a·w` (2^-48 of the magnitudes involved)
      let okRow : List Q → List Q × Q → Bool := fun w rb =>
        let mag := (rb.1.zip w).foldl (fun s (a, x) => s + absQ (a * x)) (absQ rb.2)
        decide (-(tol + mag * mkRat 1 (2 ^ 48)) ≤ rb.2 - dot rb.1 w)
      match ws.find? (fun w => w.length != n || !(poly.rows.all (okRow w))) with
      | some w => some s!"node {nd.idx}: stored witness {showVec w} violates its path conditions"
      | none => if ws.isEmpty then some s!"node {nd.idx}: FeasibleWitness with an empty witness list" else none
    | .infeasible =>
      if nd.isRoot then none else
      match pointInShrunk n nd.path with
      | some x => some s!"node {nd.idx} is marked infeasible but {showVec x} lies inside its path region with margin 1e-6"
      | none => none
    | _ => none)

/-- C06 (after elimination of a total tree): no non-root node with a region empty by more than the tolerance,
    no single-child decision below the root -/
def effectivenessViolation (n : Nat) (t : PT Q) : Option String :=
  (nodeInfos t true []).findSome? (fun nd =>
    if nd.isRoot then none
    else if !nd.isLeaf && nd.nChildren == 1 then
      let childStates := ((t.find? nd.idx).map (fun s => s.kids.existing.map (fun c => showState c.2.val.state))).getD []
      -- the one exception (`C06_no_single_branch`): both branches were judged empty — the first was removed, the last
      -- one is kept (a decision never loses its last child) and is marked infeasible.  The two closed half-spaces cover
      -- the parent's region, so this needs solver answers that contradict each other (the parent was not judged empty);
      -- every `Infeasible` answer is checked against a margin separately (C10 clause of the history judge)
      if childStates == ["X"] then none
      else some s!"decision {nd.idx} (state {showState nd.state}) below the root is left with a single branch (state of the remaining child: {childStates})"
    else if emptyEvenGrown n nd.path then
      let mags := ((nd.path.flatMap (fun h => h.mat.flatMap id)).filter (· != 0)).map absQ
      let hi := mags.foldl max 0
      let lo := mags.foldl min hi
      let ill := lo > 0 && (hi / lo ≥ (2 : Q) ^ 20 || hi ≥ (2 : Q) ^ 16)
      some s!"node {nd.idx} (state {showState nd.state}) remains although its path region is empty (certified, margin 1e-6){if ill then " (ill-scaled system: coefficients of magnitude ≥ 2^16, or magnitudes differing by a factor ≥ 2^20)" else ""}"
    else none)

mutual
/-- C08 post-condition: no decision below the root has two terminal children with the same map -/
def reducible : PT Q → Bool → Option Nat
  | .node i _ ks, root => if !root && (mergeable? ks).isSome then some i else kidsReducible ks
def kidsReducible : PKids Q → Option Nat
  | .nil => none
  | .cons none r => kidsReducible r
  | .cons (some t) r => match reducible t false with
    | some i => some i
    | none => kidsReducible r
end

mutual
/-- some decision has a larger arena index than one of its decision children (indices not in insertion order) -/
def inverted : PT Q → Bool
  | .node i _ ks => kidsInverted ks i
def kidsInverted : PKids Q → Nat → Bool
  | .nil, _ => false
  | .cons none r, p => kidsInverted r p
  | .cons (some t) r, p => (!t.kids.allNone && t.idx < p) || inverted t || kidsInverted r p
end

/-! ### parsing of one step -/

def schemaTree : P (PT Q) := do
  let name ← tok
  match name with
  | "relu" => let n ← pNat; let r ← pNat; pure (Sch.partialReLU n r)
  | "leaky" => let n ← pNat; let r ← pNat; let a ← pNum; pure (Sch.partialLeakyReLU n r a)
  | "hard_tanh" => let n ← pNat; let r ← pNat; let lo ← pNum; let hi ← pNum; pure (Sch.partialHardTanh n r lo hi)
  | "hard_shrink" => let n ← pNat; let r ← pNat; let l ← pNum; pure (Sch.partialHardShrink n r l)
  | "threshold" => let n ← pNat; let r ← pNat; let t ← pNum; let v ← pNum; pure (Sch.partialThreshold n r t v)
  | "hard_sigmoid" =>
    let n ← pNat; let r ← pNat; let three ← pNum; let sixth ← pNum; let half ← pNum
    pure (Sch.partialHardSigmoid n r three sixth half)
  | "argmax" => let n ← pNat; pure (Sch.argmax n (fun k => (k : Q)))
  | "class_char" => let n ← pNat; let c ← pNat; pure (Sch.classChar n c)
  | _ => throw s!"unknown schema '{name}'"

inductive Op where
  | applyFunc (a : Aff Q)
  | compose (prune : Bool) (g : PT Q)
  | elim
  | reduce
  | arithTree (op : ArithOp) (g : PT Q)
  | arithAff (op : ArithOp) (treeLeft : Bool) (a : Aff Q)
  | neg
  | plant (idx : Nat) (pts : List (List Q))   -- the user appends witnesses to the public cache of a node

def pOperand : P (PT Q) := do
  let k ← tok
  match k with
  | "schema" => schemaTree
  | "tree" =>
    let td ← pTree
    match td.abs with
    | some t => pure t
    | none => throw "operand tree is not consistent"
  | _ => throw s!"bad operand kind '{k}'"

def arithOfName : String → Option ArithOp
  | "add" => some .add | "sub" => some .sub | "mul" => some .mul | "div" => some .div
  | "addf" => some .add | "subf" => some .sub | "mulf" => some .mul
  | _ => none

def pOp : P (Op × String) := do
  let name ← tok
  match name with
  | "apply_func" => pure (.applyFunc (← pAff), name)
  | "compose0" => pure (.compose false (← pOperand), name)
  | "compose1" => pure (.compose true (← pOperand), name)
  | "elim" => pure (.elim, name)
  | "reduce" => pure (.reduce, name)
  | "neg" => pure (.neg, name)
  | "plant" =>
    let idx ← pNat
    let k ← pNat
    let pts ← pMany k pVec
    pure (.plant idx pts, name)
  | "add" | "sub" | "mul" | "div" =>
    let _variant ← pNat
    let td ← pTree
    match td.abs, arithOfName name with
    | some g, some op => pure (.arithTree op g, name)
    | _, _ => throw "bad arithmetic operand"
  | "addf" | "subf" | "mulf" =>
    let side ← pNat
    let a ← pAff
    match arithOfName name with
    | some op => pure (.arithAff op (side == 0) a, name)
    | none => throw "bad op"
  | _ => throw s!"unknown history op '{name}'"

def pFaultPlan : P Nat := do
  let k ← pNat
  for _ in [0:k] do
    let _ ← pNat
    let kind ← tok
    if kind == "P" then let _ ← pNum
  pure k

def pEvals (n : Nat) : P (List EvalRes) := pMany n pEvalRes

def hasZeroCoeff (t : PT Q) : Bool :=
  t.toArena.any (fun nd => nd.isleaf && (nd.val.aff.mat.any (fun r => r.any (· == 0)) || nd.val.aff.bias.any (· == 0)))

/-- the model's result of one step; `none` when the model says the call panics -/
def modelStep (tol : Q) (n : Nat) (t : PT Q) (op : Op) (s : OState) : Option (PT Q) × OState :=
  match op with
  | .applyFunc a => (some (PT.applyFunc t a), s)
  | .compose false g => (some (PT.compose t g), s)
  | .compose true g =>
    let r := PT.composeP Schema.compose (isEdgeFeasible tol lpOracle) n [] t g s (PT.freshBase t)
    (some r.1, r.2.1)
  | .elim => let r := infeasibleElimination tol oracles n t s; (some r.1, r.2)
  | .reduce => (some (PT.reduce t), s)
  | .arithTree op g =>
    if op == .div && hasZeroCoeff g then (none, s) else
    let r := PT.composeP (Schema.arith op.onAff) (isEdgeFeasible tol lpOracle) n [] t g s (PT.freshBase t)
    (some r.1, r.2.1)
  | .arithAff op treeLeft a =>
    (some (PT.mapTerminals (fun f => if treeLeft then op.onAff f a else op.onAff a f) t), s)
  | .neg => (some (PT.mapTerminals Aff.neg t), s)
  | .plant idx pts =>
    (some (PT.plant t idx pts), s)

/-- what the step must compute at input `x`, stated directly (the specification side) -/
def specStep (t : PT Q) (op : Op) (x : List Q) : Option (List Q) :=
  match op with
  | .applyFunc a => (PT.eval t x).map a.apply
  | .compose _ g => (PT.eval t x).bind (PT.eval g)
  | .elim => PT.eval t x
  | .reduce => PT.eval t x
  | .arithTree op g =>
    match PT.termAt t x, PT.termAt g x with
    | some u, some v => some ((op.onAff u v).apply x)
    | _, _ => none
  | .arithAff op treeLeft a =>
    (PT.termAt t x).map (fun u => (if treeLeft then op.onAff u a else op.onAff a u).apply x)
  | .neg => (PT.eval t x).map vneg
  | .plant _ _ => PT.eval t x

def opProperty : Op → String
  | .applyFunc _ => "C02"
  | .compose false _ => "C02"
  | .compose true _ => "C03"
  | .elim => "C03"
  | .reduce => "C08"
  | .arithTree _ _ => "C07"
  | .arithAff _ _ _ => "C07"
  | .neg => "C07"
  | .plant _ _ => "C05"

def isPruning : Op → Bool
  | .compose true _ => true
  | .elim => true
  | .arithTree _ _ => true
  | _ => false

/-- distance of the intermediate values of the network at `x` to the nearest breakpoint / tie -/
def netMargin (consts : NetConsts Q) : List (Layer Q) → List Q → Q → Q
  | [], _, m => m
  | l :: ls, x, m =>
    let here : Q := match l with
      | .linear _ => m
      | .relu i => min m (absQ (x.getD i 0))
      | .leakyRelu i _ => min m (absQ (x.getD i 0))
      | .hardTanh i => min m (min (absQ (x.getD i 0 - 1)) (absQ (x.getD i 0 + 1)))
      | .hardSigmoid i => min m (min (absQ (x.getD i 0 - 3)) (absQ (x.getD i 0 + 3)))
      | .argmax =>
        (List.range x.length).foldl (fun acc i => (List.range x.length).foldl (fun acc' j =>
          if i < j then min acc' (absQ (x.getD i 0 - x.getD j 0)) else acc') acc) m
      | .classChar c => (List.range x.length).foldl (fun acc i =>
          if i != c then min acc (absQ (x.getD i 0 - x.getD c 0)) else acc) m
    netMargin consts ls (l.eval consts x) here

/-- the f64 constant `1./6.` (hard sigmoid) is the only non-dyadic number the generators use; once it has
    entered, the crate's arithmetic is rounded and an input whose exact evaluation comes within 1e-9 of a
    breakpoint or tie is "within rounding distance of a breakpoint", which the statement of C01 excludes -/
def nearBreakpoint (consts : NetConsts Q) (layers : List (Layer Q)) (x : List Q) : Bool :=
  layers.any (fun l => match l with | .hardSigmoid _ => true | _ => false) &&
    netMargin consts layers x 1 ≤ mkRat 1 1000000000

def judgeHist : P Verdict := do
  let htag ← tok
  let tol ← pNum
  -- constructor description (only recorded as a tag)
  let ctor ← tok
  tag s!"ctor-{ctor}"
  -- C01: the polyhedral precondition itself (polytope, optional map outside of it)
  let mut prePoly : Option (Aff Q × Option (Aff Q)) := none
  if ctor == "precondition" && (← peek?) == some "poly" then
    let _ ← tok
    let p ← pAff
    let t ← tok
    let ff ← if t == "some" then (do pure (some (← pAff))) else pure none
    prePoly := some (p, ff)
  -- skip constructor arguments up to the bar
  let mut guard := 0
  while guard < 100000 do
    guard := guard + 1
    match ← peek? with
    | some "|" => break
    | some _ => let _ ← tok
    | none => throw "missing '|' after constructor"
  expect "|"
  let td0 ← pTree
  let n := td0.indim
  let npts ← pNat
  let pts ← pMany npts pVec
  let ev0 ← pEvals npts
  let some t0 := td0.abs | return .propfail "[C12] constructor produced an inconsistent arena"
  -- the model's evaluation agrees with `evaluate` on the initial tree
  let mut t := t0
  let mut evPrev := ev0
  let m0 := (PT.firstOutdim t0).getD 0
  if !PT.shapedb 2 n m0 t0 then return .propfail s!"[C04] constructor {ctor} produced an ill-shaped tree"
  for (x, e) in pts.zip ev0 do
    if e != .val (PT.eval t0 x) then
      match e with
      | .val got => if evalCmp t0 x (PT.eval t0 x) got == .different then return .diverge s!"evaluate differs from the model on the initial tree at {showVec x}"
      | _ => return .diverge s!"evaluate differs from the model on the initial tree at {showVec x}"
  let mut step := 0
  let mut inexact := false
  let mut pending : Option String := none
  let mut pendingC10 : Option String := none
  let mut nontrivial := false
  let mut everFaulted := false   -- C06 speaks about histories under a correct solver
  while (← peek?) == some ";" do
    expect ";"
    let (op, opname) ← pOp
    tag opname
    let nfaults ← pFaultPlan
    if nfaults > 0 then tag "faulted"
    if nfaults > 0 then everFaulted := true
    expect "|"
    let st ← tok
    let prop := opProperty op
    if st == "panic" || st == "panicS" then
      let inSolver := if st == "panicS" then " [the panic is raised inside the external LP solver: minilp unwraps Err(SingularMatrix) in BasisSolver::reset]" else ""
      -- C04 / C11: a dimension-compatible operation must complete
      let (model, _) := modelStep tol n t op ⟨[], [], 0, tol⟩
      match model with
      | none => tag "expected-panic"; return (if inexact then .inexact "values" else .ok)
      | some _ =>
        -- in a distillation history (tag C01) the step is a step of the builder: the builder panics on this network
        return .propfail s!"[{if nfaults > 0 then "C11" else if htag == "C01" then "C01" else if htag == "C08" && opname == "reduce" then "C08" else "C04"}] step {step} ({opname}) panicked on dimension-compatible arguments{if htag == "C01" then " (a step of afftree_from_layers on a dimension-consistent network)" else ""}{inSolver}"
    let td' ← pTree
    let log ← pLog
    let trace ← pTrace
    let ev' ← pEvals npts
    let refTag ← tok
    let evRef ← if refTag == "ref" then (do pure (some (← pEvals npts))) else pure none
    let idemTag ← tok
    let idem ← if idemTag == "idem" then (do let a ← pNat; let b ← pNat; let c ← pNat; pure (some (a, b, c))) else pure none
    -- values after the same clean-up was run a second time (on a clone)
    let evAgain ← if idemTag == "idem" then (do pure (some (← pEvals npts))) else pure none
    let baseTag ← tok
    let base ← if baseTag == "base" then (do pure (some (← pNat))) else pure none
    if !log.isEmpty then tag "lp"
    let some t' := td'.abs | return .propfail s!"[C12] step {step} ({opname}): resulting arena is not a consistent tree"
    if isPruning op && t'.size ≥ 3 then nontrivial := true
    -- ---- property oracles on the implementation's output ----
    -- every `Infeasible` answer of the real solver is sound by a margin (hypothesis of the pruning theorems, C10);
    -- checked first: a wrong `Infeasible` is the root cause of whatever the pruning does with it afterwards
    for e in log do
      if e.real == .infeasible then
        if let some x := pointInShrunk e.poly.indim [e.poly] then
          let mags := (e.poly.mat.flatMap id).filter (· != 0) |>.map absQ
          let hi := mags.foldl max 0
          let lo := mags.foldl min hi
          let ill := lo > 0 && hi / lo ≥ (2 : Q) ^ 20
          let msg := s!"[C10] step {step} ({opname}): the solver reported Infeasible for a polytope containing {showVec x} with margin 1e-6{if ill then " (ill-scaled system: coefficient magnitudes differ by a factor ≥ 2^20)" else ""}"
          -- on an ill-scaled system (the regime of the known finding about minilp) the verdict is returned at once; on a
          -- well-scaled one it is remembered and the oracles of the step's own property still run: what the pruning does
          -- with the wrong answer is then reported with a failing input of that property
          if ill then return .propfail msg
          if pendingC10.isNone then pendingC10 := some msg
    -- values at the sampled inputs against the specification of the step
    for (x, e) in pts.zip ev' do
      let want := specStep t op x
      match e with
      | .panic => return .propfail s!"[C04] step {step} ({opname}): evaluate panics at {showVec x} afterwards"
      | .val got =>
        match evalCmp t' x want got with
        | .same => pure ()
        | .close => inexact := true
        | .different =>
          -- an intermediate value within rounding distance of a breakpoint of the operand that is composed on top
          -- (possible only with non-dyadic data: the hard-sigmoid slope): the rounded coefficients of the composed
          -- tree may put the input on the other side; C01 / C02 exclude such inputs
          let nearTie := match op with
            | .compose _ g => match PT.eval t x with
              | some y => PT.nearBreak g y
              | none => false
            | _ => false
          if nearTie then
            tag "near-breakpoint"
            inexact := true
          else
          let pid := if nfaults > 0 then "C11" else prop
          return .propfail s!"[{pid}] step {step} ({opname}): at input {showVec x} expected {showOptVec want} but the tree evaluates to {showOptVec got}"
    -- pruned composition against the implementation's own un-pruned composition
    if let some er := evRef then
      for ((x, e), r) in (pts.zip ev').zip er do
        match e, r with
        | .val a, .val b =>
          if evalCmp t' x a b == .different then
            return .propfail s!"[{if nfaults > 0 then "C11" else "C03"}] step {step} ({opname}): pruned and un-pruned composition differ at {showVec x}: {showOptVec a} vs {showOptVec b}"
        | _, _ => pure ()
    -- shape (C04)
    let m' := (PT.firstOutdim t').getD 0
    if !PT.shapedb 2 n m' t' then
      return .propfail s!"[{if nfaults > 0 then "C11" else "C04"}] step {step} ({opname}): tree is ill-shaped afterwards (node maps, terminal dimension, rows per decision, leaf/terminal agreement)"
    -- caches (C05)
    if let some msg := cacheViolation tol n t' then
      return .propfail s!"[{if nfaults > 0 then "C11" else "C05"}] step {step} ({opname}): {msg}"
    -- a second run of the clean-up (which trusts the caches the first one left) keeps the function
    if let some ea := evAgain then
      for (x, e) in pts.zip ea do
        let want := specStep t op x
        match e with
        | .panic => return .propfail s!"[C04] step {step} ({opname}): evaluate panics at {showVec x} after the clean-up was run a second time"
        | .val got =>
          if evalCmp t' x want got == .different then
            let pid := match op with | .reduce => "C08" | _ => "C03"
            return .propfail s!"[{pid}] step {step} ({opname}): running the clean-up a second time changed the value at {showVec x}: expected {showOptVec want} but the tree evaluates to {showOptVec got}"
    -- effectiveness and idempotence of the clean-ups
    match op with
    | .elim =>
      if !everFaulted && isTotal t then
        if let some msg := effectivenessViolation n t' then
          return .propfail s!"[C06] step {step} (elim): {msg}"
      if let some (same, lps, calls) := idem then
        -- `same`: 1 identical, 2 identical up to cached states, 0 structure or maps differ.  A second run that only
        -- decides a node the first run left undecided (the solver's point for it failed the containment test then, and
        -- the shorter path after forwarding gives the solver a different vertex now) is a tolerance effect
        if !everFaulted && same == 2 && (lps != 0 || calls != 0) then
          tag "second-run-decides-more"
          inexact := true
        else if !everFaulted && same != 1 then return .propfail s!"[C06] step {step}: a second infeasible_elimination changed the tree"
        -- LPs solved by the second run change nothing observable; they show that some node stayed undecided
        -- (`Decisive` fails: the solver's point did not pass `contains` and could not be repaired)
        if !everFaulted && isTotal t && (lps != 0 || calls != 0) then tag "second-run-lps"
      if let some b := base then
        if t'.size < b then
          let showAns : LPAnswer Q → String := fun a => match a with
            | .infeasible => "I" | .unbounded => "U" | .error => "E" | .optimal x => s!"O{showVec x}"
          let logS := log.map (fun e => s!"[{e.poly.mat.map showVec}|{showVec e.poly.bias} real={showAns e.real} ret={showAns e.ret}]")
          return .propfail s!"[C11] step {step}: with solver faults the tree has {t'.size} nodes, fewer than the fault-free result {b}{if !isTotal t then " (partial tree: the fault-free run keeps an infeasible only-child sub-tree whole)" else if log.any (fun e => e.real == .infeasible && e.ret != .infeasible) then " (a fault masked an Infeasible verdict: the fault-free run keeps that node whole as the last child of its decision, the faulted run descends into it)" else ""} BEFORE {showTree t} AFTER {showTree t'} LOG {logS} TRACE {trace.map (fun e => s!"{e.1}:{showState e.2}")}"
    | .reduce =>
      if t'.size < t.size then tag "merged"
      if inverted t then tag "inverted"
      if inverted t && t'.size + 4 ≤ t.size then tag "inverted-cascade"
      if t'.size + 4 ≤ t.size then tag "cascade"
      if t'.size > t.size then return .propfail s!"[C08] step {step}: reduce increased the number of nodes"
      if let some i := reducible t' true then
        return .propfail s!"[C08] step {step}: after reduce decision {i} still has two terminal children with the same map"
      if let some (same, _, _) := idem then
        if same != 1 then return .propfail s!"[C08] step {step}: reduce is not idempotent"
    | _ => pure ()
    -- ---- correspondence with the model ----
    let (model, os) := modelStep tol n t op ⟨log, trace, 0, tol⟩
    -- `is_edge_feasible` takes every edge out of arena slot 0 for feasible ("the root"); the model follows that for the
    -- nodes of the operand, but it cannot know whether the slab hands slot 0 to a *new* node, which happens only when
    -- slot 0 had been freed (trees grown upwards, whose former root was forwarded or removed). The effect is less
    -- pruning; the property oracles above have run, the comparison with the model is skipped for such a step.
    let slotZeroReused := !t.indices.contains 0 && t'.indices.contains 0 &&
      ["compose1", "add", "sub", "mul", "div"].contains opname
    if slotZeroReused then
      tag "slot-zero-reused"
      inexact := true
    let model := if slotZeroReused then some t' else model
    let os := if slotZeroReused then { os with missing := 0 } else os
    match model with
    | none =>
      -- a disagreement with the model is remembered, not returned at once: the steps start from the implementation's
      -- own tree, so the property oracles of the later steps (and the network oracle of C01) still run and can turn
      -- the disagreement into a concrete failing input
      if pending.isNone then pending := some s!"step {step} ({opname}): model rejects the call, implementation completed"
    | some mt =>
      -- ill-scaled data: where the code's float `contains` accepts a cached witness at the threshold and the exact
      -- one does not, the model asks the solver and the code does not; the answer it misses is "feasible"
      if os.missing > 0 && illScaled t' then
        inexact := true
        tag "contains-at-threshold"
      if os.missing > 0 && !illScaled t' then
        if pending.isNone then pending := some s!"step {step} ({opname}): the model asked {os.missing} LP question(s) the implementation did not ask"
      -- indices of the nodes of the operand that survive in the model result must be kept; the slab may
      -- hand the index of a removed node to a new node, so all other indices are only required to be fresh
      match treeCmp (t.indices.filter (fun i => mt.indices.contains i)) true mt t' with
      | .same => pure ()
      | .close => inexact := true
      | .different =>
        -- the replay feeds the model the logged answers by polytope; when a fault plan answered two
        -- textually identical questions differently the assignment of answers to calls is ambiguous
        let ambiguous := nfaults > 0 && log.any (fun e => log.any (fun e' =>
          e.poly == e'.poly && e.obj == e'.obj && e.ret != e'.ret))
        if ambiguous then
          return .skip s!"step {step} ({opname}): replay ambiguous (identical LP questions answered differently under the fault plan); property oracles passed"
        -- ill-scaled data: the code's float `contains` and the exact one may disagree at the threshold, which changes
        -- cached states only; structure and maps must still agree
        if illScaled t' && treeCmp (t.indices.filter (fun i => mt.indices.contains i)) true (eraseStates mt) (eraseStates t') != .different then
          inexact := true
          tag "state-at-threshold"
        else if illScaled t' && !os.log.isEmpty then
          -- the other direction (thorough tier, 1 of 22 500 distillation histories, coefficients of size 10¹²): the code's
          -- float `contains` rejected a cached witness that the exact one accepts, so the code asked the solver a
          -- question the model never asked (its answer is left over in the log) and pruned on the answer
          inexact := true
          tag "contains-at-threshold-extra-question"
        else
        if pending.isNone then pending := some s!"step {step} ({opname}): model tree differs from the implementation's tree (structure, maps, states or kept indices) MODEL {showTree mt} IMPL {showTree t'} BEFORE {showTree t}"
    t := t'
    evPrev := ev'
    step := step + 1
  if nontrivial || step ≥ 3 then tag "nt"
  -- C01 trailer: the network the history distils, the real builder's result
  if (← peek?) == some "NET" then
    let _ ← tok
    let dim ← pNat
    let nl ← pNat
    let consts : NetConsts Q := ⟨3, ratOfMantExp 6004799503160661 (-55), (1 : Q) / 2, fun k => (k : Q)⟩
    let layers ← pMany nl (do
      let k ← tok
      match k with
      | "linear" => pure (Layer.linear (← pAff))
      | "relu" => pure (Layer.relu (← pNat))
      | "leaky" => let i ← pNat; let a ← pNum; pure (Layer.leakyRelu i a)
      | "hard_tanh" => pure (Layer.hardTanh (← pNat))
      | "hard_sigmoid" => pure (Layer.hardSigmoid (← pNat))
      | "argmax" => pure Layer.argmax
      | "class_char" => pure (Layer.classChar (← pNat))
      | _ => throw s!"bad layer '{k}'")
    tag s!"layers-{nl}"
    if layers.any (fun l => match l with | .argmax => true | .classChar _ => true | _ => false) then tag "head"
    let bt ← tok
    if bt == "buildpanic" then
      return .propfail "[C01] afftree_from_layers panicked on a dimension-consistent network"
    if bt == "buildpanicS" then
      return .propfail "[C01] afftree_from_layers panicked on a dimension-consistent network [the panic is raised inside the external LP solver: minilp unwraps Err(SingularMatrix) in BasisSolver::reset]"
    let same ← pNat
    let evB ← pEvals npts
    let _ := dim
    -- specification: inside the precondition the network's output, outside undefined
    for (x, e) in pts.zip evB do
      -- with a polyhedral precondition: inside the polytope the network, outside of it nothing (or the network after the
      -- given other map); otherwise the precondition is the tree handed to the builder
      let want := match prePoly with
        | some (p, ff) => (if Poly.memb p x then some x else ff.map (fun f => f.apply x)).map (netEval consts layers)
        | none => (PT.eval t0 x).map (netEval consts layers)
      match e with
      | .panic => return .propfail s!"[C01] evaluate panics on the distilled tree at {showVec x}"
      | .val got =>
        match evalCmp t x want got with
        | .same => pure ()
        | .close => inexact := true
        | .different =>
          if nearBreakpoint consts layers ((PT.eval t0 x).getD x) then inexact := true
          else return .propfail s!"[C01] at input {showVec x} the network gives {showOptVec want} but the distilled tree evaluates to {showOptVec got}"
    if same != 1 then
      return .diverge "afftree_from_layers: the builder's tree differs from the step-by-step replay with the same public operations (the model of the builder is this sequence of steps)"
  if let some m := pendingC10 then return .propfail m
  if let some d := pending then return .diverge d
  pure (if inexact then .inexact "values" else .ok)

end AV.Judge
