import AffVerif.Judge.C14
import AffVerif.Model.Regions
/-!
Judge for C09: the region stream of `polyhedra()` under a skip schedule against the reference regions (property)
and the machine (correspondence); `polyhedra_iter()`; `find_terminal` label sequences and routing vs. regions;
disjoint interiors of terminal regions (exact, strict systems).
-/
namespace AV.Judge

open Simplex

structure RegRow where
  depth : Nat
  idx : Nat
  nrem : Nat
  polys : List (Aff Q)

def pRegRow : P RegRow := do
  let d ← pNat; let i ← pNat; let r ← pNat; let k ← pNat
  let ps ← pMany k pAff
  pure ⟨d, i, r, ps⟩

/-- is the system `A x < b` (all rows strict) solvable? maximise `t` with `A x + t ≤ b`, `t ≤ 1` -/
def strictlyFeasible (n : Nat) (rows : List (List Q × Q)) : Option (List Q) :=
  let A : Mat Q := rows.map (fun (a, _) => a ++ [1]) ++ [(zeros n) ++ [1]]
  let b : List Q := rows.map (·.2) ++ [1]
  match solvePoly A b ((zeros n) ++ [-1]) (n + 1) with
  | .optimal z v => if -v > 0 then some (z.take n) else none
  | _ => none

def regionEq (a b : List (Aff Q)) : Bool :=
  a.length == b.length && (a.zip b).all (fun (x, y) => cmpAff x y == .same)

def judgeC09 : P Verdict := do
  -- `rerooted`: the arena holds one more node than the tree (the disconnected draft root that a second `add_root`
  -- left behind — the documented exception to reachability): `len()`, and with it the lower size hints, count it
  let rerooted ← (do if (← peek?) == some "rerooted" then let _ ← tok; pure true else pure false)
  if rerooted then tag "rerooted"
  let orph : Nat := if rerooted then 1 else 0
  let td ← pTree
  -- `start i`: the generator was created with `PolyhedraGen::with_root(tree, i)` for a node below the root
  let start ← (do if (← peek?) == some "start" then let _ ← tok; pure (some (← pNat)) else pure none)
  if start.isSome then tag "inner-start"
  let skl ← pNatList
  let pre ← pNat
  if pre > 0 then tag "pre-skip"
  expect "|"
  -- the trees of this kind are built through the public API only; when the arena is not the image of a tree (a leaf
  -- flag on a node with a child, a dangling link) `find_terminal` / `evaluate` (which trust the flags) and the region
  -- iterators (which trust the links) cannot agree
  let some t := td.abs | return .propfail "[C09] the arena the iterators walk is not a consistent tree (leaf flags / links): routing by evaluate/find_terminal and the reported regions disagree"
  let n := td.indim
  let sk : Nat → Nat := fun k => skl.getD k 0
  if t.size ≥ 5 then tag "nt"
  if skl.any (· ≠ 0) then tag "skips"
  if !isTotal t then tag "partial"
  let first ← tok
  if first == "panic" then return .propfail "[C09] polyhedra() panicked"
  let some cnt := first.toNat? | throw "bad count"
  let rows ← pMany cnt pRegRow
  -- property: stream = reference (pre-order with skips, closed path half-spaces, once per node)
  -- started below the root: the sub-tree of the start node, the conditions begin with the edge into it
  let (sub, prefix0) : PT Q × List (Aff Q) := match start with
    | none => (t, [])
    | some i =>
      match t.find? i, t.parentOf? i with
      | some st, some (p, l) => (st, match t.find? p with | some pn => [halfspace pn.val.aff l] | none => [])
      | _, _ => (t, [])
  let ref := (regionsSkipT sk sub 0 0 prefix0 0).1
  if rows.length != ref.length then
    return .propfail s!"[C09] polyhedra() with skips {skl}: {rows.length} items reported, {ref.length} expected"
  for (r, (it, path)) in rows.zip ref do
    if r.depth != it.depth || r.idx != it.idx || r.nrem != it.nrem then
      return .propfail s!"[C09] polyhedra() with skips {skl}: item ({r.depth},{r.idx},{r.nrem}) reported, ({it.depth},{it.idx},{it.nrem}) expected"
    if !regionEq r.polys path then
      return .propfail s!"[C09] polyhedra(): node {r.idx}: reported path conditions {r.polys.map showAff} differ from the path {path.map showAff}"
  -- correspondence with the machine
  let mach := PGen.run t sk (t.size + 2) (PGen.skipN pre (⟨[], Dfs.new t sub, 0⟩ : PGen Q)) 0
  if mach.length != rows.length || !(rows.zip mach).all (fun (r, (it, ps)) =>
      r.depth == it.depth && r.idx == it.idx && r.nrem == it.nrem && regionEq r.polys ps) then
    return .diverge "polyhedra(): machine model and implementation streams differ"
  -- iterator form
  expect ";"
  let icnt ← pNat
  let lb0 ← pNat; let ub0 ← pNat
  if !(lb0 ≤ icnt + orph && icnt ≤ ub0) then return .propfail s!"[C13] polyhedra_iter size_hint ({lb0},{ub0}) does not bracket {icnt}"
  let refAll := regionsT t 0 0 []
  if icnt != refAll.length then return .propfail s!"[C09] polyhedra_iter(): {icnt} items, {refAll.length} nodes"
  let mut k := 0
  for (it, path) in refAll do
    let d ← pNat; let i ← pNat; let r ← pNat; let np ← pNat; let lb ← pNat; let ub ← pNat
    if d != it.depth || i != it.idx || r != it.nrem || np != path.length then
      return .propfail s!"[C09] polyhedra_iter(): item {k} is ({d},{i},{r},{np} conditions), expected ({it.depth},{it.idx},{it.nrem},{path.length})"
    let remaining := icnt - (k + 1)
    if !(lb ≤ remaining + orph && remaining ≤ ub) then
      return .propfail s!"[C13] polyhedra_iter size_hint ({lb},{ub}) after item {k} does not bracket {remaining}"
    k := k + 1
  -- find_terminal
  expect ";"
  let npts ← pNat
  let infos := nodeInfos t true []
  for _ in [0:npts] do
    let x ← pVec
    let r ← tok
    -- where binary64 cannot decide a side (a hair off a hyperplane with inexact products) routing is rounding
    if !(PT.faith t x).1 then
      tag "float-undecided"
      if r != "panic" && r != "none" then
        let _ ← pNat; let _ ← pNatList
      continue
    match r with
    | "panic" => return .propfail s!"[C09] find_terminal panicked at {showVec x}"
    | "none" =>
      if (PT.findTerminal t x).isSome then return .propfail s!"[C09] find_terminal({showVec x}) = None but the labels lead to a terminal"
    | _ =>
      let idx ← pNat
      let labels ← pNatList
      -- the label sequence is the path of the returned terminal
      match t.pathTo? idx with
      | none => return .propfail s!"[C09] find_terminal returned a node that is not in the tree"
      | some path =>
        if path.map (·.2) != labels then
          return .propfail s!"[C09] find_terminal({showVec x}): labels {labels} are not the path {path.map (·.2)} of the returned terminal {idx}"
        -- x satisfies the reported conditions of every node on that path
        for (pi, _) in path ++ [(idx, 0)] do
          match infos.find? (fun nd => nd.idx == pi) with
          | some nd =>
            if !nd.path.all (fun h => Poly.memb h x) then
              return .propfail s!"[C09] {showVec x} is routed through node {pi} but violates its reported path conditions"
          | none => pure ()
      if PT.findTerminal t x != some (idx, labels) then
        return .diverge s!"find_terminal({showVec x}): model {PT.findTerminal t x} impl ({idx},{labels})"
    -- converse: a point strictly inside a node's region is routed through that node
    for nd in infos do
      let strictIn := nd.path.all (fun h => h.rows.all (fun (a, b) => dot a x < b))
      if strictIn && !nd.isRoot then
        let onPath := match PT.findTerminal t x with
          | some (ti, _) => ((t.pathTo? ti).getD []).any (·.1 == nd.idx) || ti == nd.idx
          | none =>
            -- undefined: the walk ends at an empty slot; follow the labels as far as they go
            true
        if !onPath then return .propfail s!"[C09] {showVec x} lies strictly inside the region of node {nd.idx} but is not routed through it"
  -- distinct terminals have disjoint interiors (exact)
  let terms := infos.filter (·.isLeaf)
  if terms.length ≤ 8 then
    for a in terms do
      for b in terms do
        if a.idx < b.idx then
          let rowsAB := (a.path ++ b.path).flatMap (fun h => h.rows)
          if let some x := strictlyFeasible n rowsAB then
            return .propfail s!"[C09] terminals {a.idx} and {b.idx}: {showVec x} lies strictly inside both reported regions"
  pure .ok

end AV.Judge
