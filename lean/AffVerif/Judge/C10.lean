import AffVerif.Judge.Hist
/-!
Judge for C10 (LP layer) and C15 (constraint clean-up): the exact rational simplex classifies each system,
its answers are validated (points by membership, emptiness by verified Farkas certificates, optima by a
primal/dual pair, unboundedness by a ray) and the implementation's answers are compared with that.
-/
namespace AV.Judge

open Simplex

def dotQ (a b : List Q) : Q := dot a b

/-- exact, certified optimum of `min c·x` over `{x | A x ≤ b}` -/
inductive Exact where
  | empty                          -- certified by Farkas multipliers
  | unbounded (x d : List Q)       -- feasible point and improving ray
  | optimal (x : List Q) (v : Q)   -- with a dual certificate checked
  | undecided (why : String)

def certifiedEmpty (p : Aff Q) : Bool :=
  match findFarkas p.mat p.bias p.indim with
  | some y => checkInfeasible p.indim (polyRows p) y
  | none => false

def exactLP (p : Aff Q) (c : List Q) : Exact :=
  let n := p.indim
  match solvePoly p.mat p.bias c n with
  | .infeasible => if certifiedEmpty p then .empty else .undecided "no Farkas certificate"
  | .failed => .undecided "simplex stalled"
  | .unbounded =>
    -- feasible point and a ray d with A d ≤ 0, c·d ≤ −1
    match findPoint p.mat p.bias n with
    | none => .undecided "unbounded without a feasible point"
    | some x =>
      let rayP : Aff Q := ⟨p.mat ++ [c], p.bias.map (fun _ => 0) ++ [-1], n⟩
      match findPoint rayP.mat rayP.bias n with
      | some d => if checkUnbounded n p c x d then .unbounded x d else .undecided "ray check failed"
      | none => .undecided "no ray found"
  | .optimal x v =>
    if !(Poly.memb p x && dotQ c x == v) then .undecided "primal point invalid" else
    -- dual certificate: y ≥ 0, Aᵀy = −c, b·y = −v
    let m := p.mat.length
    let M : Mat Q := (List.range n).map (fun j => p.mat.map (fun row => row.getD j 0)) ++ [p.bias]
    let q : List Q := (List.range n).map (fun j => -(c.getD j 0)) ++ [-v]
    match feasNonneg M q m with
    | some y =>
      -- accepted only by the verified checker (`checkOptimal_sound`)
      if checkOptimal n p c x v y then .optimal x v else .undecided "dual certificate invalid"
    | none => .undecided "no dual certificate"

def tolQ : Q := mkRat 1 1000000

/-- rank of a rational matrix (Gaussian elimination) -/
partial def rankQ (rows : List (List Q)) : Nat :=
  match rows.find? (fun r => r.any (· != 0)) with
  | none => 0
  | some piv =>
    let j := piv.findIdx (· != 0)
    let pj := piv.getD j 0
    let rest := (rows.filter (fun r => r != piv || false)).map (fun r =>
      let f := r.getD j 0 / pj
      (r.zip piv).map (fun (a, b) => a - f * b))
    1 + rankQ (rest.filter (fun r => r.any (· != 0)))

/-- a recession direction of zero cost: `d ≠ 0`, `A d ≤ 0`, `c·d = 0` (then the set of optimal points is
    unbounded; found by 2n small exact LPs and validated) -/
def zeroCostRay? (p : Aff Q) (c : List Q) : Option (List Q) :=
  let n := p.indim
  let base : Mat Q := p.mat ++ [c, c.map (fun v => -v)]
  let rhs : List Q := p.mat.map (fun _ => (0 : Q)) ++ [0, 0]
  (List.range (2 * n)).findSome? (fun k =>
    let j := k / 2
    let sgn : Q := if k % 2 == 0 then 1 else -1
    -- sgn * d_j ≥ 1  ⇔  −sgn * d_j ≤ −1
    let row := (List.range n).map (fun i => if i == j then -sgn else (0 : Q))
    match findPoint (base ++ [row]) (rhs ++ [-1]) n with
    | some d =>
      if p.mat.all (fun r => dot r d ≤ 0) && dot c d == 0 && d.any (· != 0) then some d else none
    | none => none)

def freeDirNote (p : Aff Q) (c : List Q) : String :=
  match zeroCostRay? p c with
  | some d => s!" (the set has a recession direction of zero cost, e.g. {showVec d})"
  | none => ""

/-- membership up to 1e-6 plus what binary64 can resolve at the magnitude of the terms (2⁻⁴⁴ of Σ|aₖxₖ| + |b|: a point
    with coordinates of size 2³² cannot satisfy a row to 1e-6 in raw residual terms) -/
def containsScaled (p : Aff Q) (x : List Q) : Bool :=
  p.rows.all (fun (rb : List Q × Q) =>
    let mag := ((rb.1.zip x).map (fun q => absQ (q.1 * q.2))).foldl (· + ·) (absQ rb.2)
    decide (dot rb.1 x - rb.2 ≤ tolQ + mag * mkRat 1 (2 ^ 44)))

/-- judge one implementation answer for objective `c` -/
def judgeAnswer (what : String) (p : Aff Q) (c : List Q) (ans : String ⊕ LPAnswer Q) : Option Verdict :=
  match ans with
  | .inl s => some (.propfail s!"[C10] {what}: {s}")
  | .inr a =>
    match a with
    | .error => some (.propfail s!"[C10] {what}: solver error")
    | .infeasible =>
      -- the scale of the data: the box [−R, R]ⁿ with R = max(10⁶, 4·max|bᵢ|) (a region does not have to be near the
      -- origin to be non-empty)
      match pointInShrunkR (max 1000000 (4 * p.bias.foldl (fun m b => max m (absQ b)) 0)) p.indim [p] with
      | some x => some (.propfail s!"[C10] {what}: reported Infeasible but {showVec x} lies in the set with margin 1e-6")
      | none => none
    | .optimal x =>
      if x.length != p.indim || !containsScaled p x then
        some (.propfail s!"[C10] {what}: returned point {showVec x} is not in the set (tolerance 1e-6)")
      else if certifiedEmpty (shift p margin) then
        some (.propfail s!"[C10] {what}: reported a solution for a set that is empty by more than 1e-6")
      else
        match exactLP p c with
        | .optimal _ v =>
          if dotQ c x ≤ v + tolQ * (1 + absQ v) then none
          else some (.propfail s!"[C10] {what}: returned objective value {dotQ c x} but the minimum is {v}")
        | .unbounded _ d =>
          some (.propfail s!"[C10] {what}: returned an 'optimal' point although the objective is unbounded below along {showVec d}")
        | _ => none
    | .unbounded =>
      if certifiedEmpty (shift p margin) then
        some (.propfail s!"[C10] {what}: reported Unbounded for a set that is empty by more than 1e-6")
      else
        match exactLP p c with
        | .optimal x v =>
          some (.propfail s!"[C10] {what}: reports Unbounded but the minimum exists{freeDirNote p c}: value {v} at {showVec x} (certified by a dual solution)")
        | _ => none

def pAnsOrPanic : P (String ⊕ LPAnswer Q) := do
  match ← peek? with
  | some "panic" => let _ ← tok; pure (.inl "panicked")
  | _ => pure (.inr (← pAnswer))

def judgeC10 : P Verdict := do
  let p ← pAff
  let c ← pVec
  expect "|"
  let st ← pAnsOrPanic
  let feasTok ← tok
  let sol ← pAnsOrPanic
  -- classification tags for the evidence
  let zeroObj := c.all (· == 0)
  match exactLP p c with
  | .empty => tag "exact-empty"
  | .unbounded _ _ => tag "exact-unbounded"
  | .optimal _ _ => tag (if zeroObj then "exact-feasible" else "exact-optimal")
  | .undecided _ => tag "exact-undecided"
  if p.mat.length ≥ 2 then tag "nt"
  -- status / is_feasible
  if let some v := judgeAnswer "status()" p (zeros p.indim) st then return v
  match st, feasTok with
  | .inr .infeasible, "0" => pure ()
  | .inr (.optimal _), "1" => pure ()
  | .inr .unbounded, "1" => pure ()
  | _, _ => return .propfail s!"[C10] is_feasible() = {feasTok} is inconsistent with status()"
  -- solve_linprog with the objective
  if let some v := judgeAnswer s!"solve_linprog({showVec c})" p c sol then return v
  -- Chebyshev centre
  let ct ← tok
  if ct == "chebpanic" then return .propfail "[C10] chebyshev_center panicked"
  let cp ← pAff
  let cost ← pVec
  let csol ← pAnswer
  -- the program: rows (a_i, ‖a_i‖) ≤ b_i and −r ≤ 0, cost −r; norms are floats: check n² ≈ a·a
  let norms := (cp.mat.take p.mat.length).map (fun r => r.getD p.indim 0)
  let normsOk := (p.mat.zip norms).all (fun (a, nr) => nr ≥ 0 && absQ (nr * nr - dotQ a a) ≤ mkRat 1 1000000000 * max 1 (dotQ a a))
  if !normsOk then return .propfail "[C10] chebyshev_center: last column is not the Euclidean norm of the rows"
  let (mp, mc) := Poly.chebyshev p norms
  if cmpAff mp cp != .same || mc != cost then
    return .diverge "chebyshev_center: program differs from the model (with the implementation's norms)"
  -- centre and radius of a largest inscribed ball = optimum of the program
  match exactLP cp cost, csol with
  | .optimal _ v, .optimal z =>
    if !containsScaled cp z then return .propfail "[C10] chebyshev: returned centre/radius violates the program"
    if absQ (dotQ cost z - v) > tolQ * (1 + absQ v) then
      return .propfail s!"[C10] chebyshev: returned radius {-(dotQ cost z)} but the largest inscribed ball has radius {-v}"
  | .optimal _ v, .unbounded => return .propfail s!"[C10] chebyshev: solver reports Unbounded but the largest inscribed ball exists{freeDirNote cp cost}: radius {-v}"
  | .optimal _ _, .infeasible =>
    if (pointInShrunk cp.indim [cp]).isSome then return .propfail "[C10] chebyshev: program reported infeasible but it is feasible by a margin"
  | .unbounded _ _, .optimal _ => return .propfail "[C10] chebyshev: a finite radius was returned although arbitrarily large balls fit"
  | .empty, .optimal _ => return .propfail "[C10] chebyshev: a ball was returned for an empty set"
  | _, _ => pure ()
  pure .ok

end AV.Judge
