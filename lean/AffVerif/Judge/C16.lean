import AffVerif.Judge.Common
/-! Judge for C16 cases: every operator / constructor of `AffFunc` against the model. -/
namespace AV.Judge

/-- truncated remainder of `f64 % f64` on exact rationals -/
def ratRem (a b : Q) : Q :=
  let q := a / b
  a - b * ((Int.tdiv q.num q.den : Int) : Q)

def noZero (f : Aff Q) : Bool := f.mat.all (fun r => r.all (· != 0)) && f.bias.all (· != 0)

def sameShape (f g : Aff Q) : Bool :=
  f.indim == g.indim && f.mat.length == g.mat.length

def judgeC16 : P Verdict := do
  let op ← tok
  tag op
  match op with
  | "compose" =>
    let f ← pAff; let g ← pAff; expect "|"; let r ← pRes
    pure (cmpResAff op (if f.indim == g.outdim then some (f.compose g) else none) r)
  | "stack" =>
    let f ← pAff; let g ← pAff; expect "|"; let r ← pRes
    pure (cmpResAff op (if f.indim == g.indim then some (f.stack g) else none) r)
  | "add" =>
    let f ← pAff; let g ← pAff; expect "|"; let r ← pRes
    pure (cmpResAff op (if sameShape f g then some (f.add g) else none) r)
  | "sub" =>
    let f ← pAff; let g ← pAff; expect "|"; let r ← pRes
    pure (cmpResAff op (if sameShape f g then some (f.sub g) else none) r)
  | "mul" =>
    let f ← pAff; let g ← pAff; expect "|"; let r ← pRes
    pure (cmpResAff op (if sameShape f g then some (f.mul g) else none) r)
  | "div" =>
    let f ← pAff; let g ← pAff; expect "|"; let r ← pRes
    pure (cmpResAff op (if sameShape f g && noZero g then some (f.zipWith (· / ·) g) else none) r)
  | "rem" =>
    let f ← pAff; let g ← pAff; expect "|"; let r ← pRes
    pure (cmpResAff op (if sameShape f g && noZero g then some (f.zipWith ratRem g) else none) r)
  | "neg" =>
    let f ← pAff; expect "|"; let r ← pRes
    pure (cmpResAff op (some f.neg) r)
  | "apply" =>
    let f ← pAff; let x ← pVec; expect "|"; let r ← pRes
    pure (cmpResVec op (if x.length == f.indim then some (f.apply x) else none) r)
  | "apply_transpose" =>
    let f ← pAff; let x ← pVec; expect "|"; let r ← pRes
    pure (cmpResVec op (if x.length == f.outdim then some (f.applyTranspose x) else none) r)
  | "row" =>
    let i ← pNat; let f ← pAff; expect "|"; let r ← pRes
    pure (cmpResAff op (if i < f.outdim then some (f.row i) else none) r)
  | "roundtrip" =>
    let f ← pAff; expect "|"; let r ← pRes
    pure (cmpResAff op (some f) r)
  | "remove_rows" =>
    let f ← pAff; let idxs ← pNatList; expect "|"; let r ← pRes
    pure (cmpResAff op (if idxs.all (· < f.outdim) then some (f.removeRows idxs) else none) r)
  | "remove_zero_rows" =>
    let f ← pAff; expect "|"; let r ← pRes
    pure (cmpResAff op (some f.removeZeroRows) r)
  | "remove_zero_columns" =>
    let f ← pAff; expect "|"; let r ← pRes
    pure (cmpResAff op (some f.removeZeroColumns) r)
  | "identity" => let n ← pNat; expect "|"; let r ← pRes; pure (cmpResAff op (some (Aff.identity n)) r)
  | "zeros" => let n ← pNat; expect "|"; let r ← pRes; pure (cmpResAff op (some (Aff.zerosF n)) r)
  | "constant" =>
    let n ← pNat; let v ← pNum; expect "|"; let r ← pRes
    pure (cmpResAff op (some (Aff.constant n v)) r)
  | "unit" =>
    let n ← pNat; let i ← pNat; expect "|"; let r ← pRes
    pure (cmpResAff op (if i < n then some (Aff.unit n i) else none) r)
  | "zero_idx" =>
    let n ← pNat; let i ← pNat; expect "|"; let r ← pRes
    pure (cmpResAff op (if i < n then some (Aff.zeroIdx n i) else none) r)
  | "sum" => let n ← pNat; expect "|"; let r ← pRes; pure (cmpResAff op (some (Aff.sum n)) r)
  | "subtraction" =>
    let n ← pNat; let l ← pNat; let rr ← pNat; expect "|"; let r ← pRes
    pure (cmpResAff op (if l < n && rr < n then some (Aff.subtraction n l rr) else none) r)
  | "rotation" =>
    let (m, c) ← pMat; expect "|"; let r ← pRes
    pure (cmpResAff op (if m.length == c then some (Aff.rotation c m) else none) r)
  | "scaling" =>
    let s ← pVec; expect "|"; let r ← pRes
    pure (cmpResAff op (some (Aff.scaling s)) r)
  | "uniform_scaling" =>
    let n ← pNat; let c ← pNum; expect "|"; let r ← pRes
    pure (cmpResAff op (some (Aff.uniformScaling n c)) r)
  | "slice" =>
    let ref ← pVecOpt; expect "|"; let r ← pRes
    pure (cmpResAff op (some (Aff.slice ref)) r)
  | "translation" =>
    let n ← pNat; let off ← pVec; expect "|"; let r ← pRes
    pure (cmpResAff op (if off.length == n then some (Aff.translation n off) else none) r)
  | "convert_to" =>
    let w ← pNat; let f ← pAff; expect "|"; let r ← pRes
    let repr := match w with | 0 => Poly.PRepr.leqBias | 1 => .biasLeqZero | 2 => .geqBias | _ => .biasGeqZero
    pure (cmpResAff op (some (Poly.convertTo f repr)) r)
  | _ => throw s!"unknown C16 op '{op}'"

end AV.Judge
