import AffVerif.Judge.C15
/-!
Judge for C14: every constructor / transformation of `Polytope` against the model (structure) and against the
set it is supposed to denote (exact membership of lattice points, half of them on a facet).
-/
namespace AV.Judge

def pBound : P (Option Q) := pNumOpt

/-- result block: `ok <poly> npts (x contains distance)…` / `panic`; `spec x` is the exact membership the
    definition prescribes, `model` the model's polytope (`none` = call must panic) -/
def finishPoly (what : String) (model : Option (Aff Q)) (spec : List Q → Bool) (tol : Q)
    (skipModel : Bool := false) : P Verdict := do
  expect "|"
  let st ← tok
  if st == "panic" then
    tag "panics"
    match model with
    | none => return .ok
    | some _ => return .propfail s!"[C14] {what}: panicked on valid arguments"
  tag "nt"
  let q ← pAff
  let npts ← pNat
  let mut inexact := false
  for _ in [0:npts] do
    let x ← pVec
    let c ← pNat
    let dx ← pVecX
    let d := dx.map XNum.toOpt
    -- exact membership in the returned polytope equals the prescribed membership
    if Poly.memb q x != spec x then
      return .propfail s!"[C14] {what}: point {showVec x} is {if spec x then "in" else "not in"} the set by definition but {if Poly.memb q x then "in" else "not in"} the returned polytope {showAff q}"
    -- `contains` (1e-8 slack) on the returned polytope
    let want := Poly.containsTol tol q x
    if (c == 1) != want then
      -- only a difference right at the threshold is rounding
      let near := (Poly.distanceRaw q x).any (fun v => absQ (v + tol) ≤ mkRat 1 1000000000000)
      if near then inexact := true
      else return .propfail s!"[C14] contains({showVec x}) = {c} on {showAff q} but the exact slack test says {want}"
    -- distance(): a row `0·x ≤ b` is satisfied by all points (b > 0: +inf) or by none (b < 0: −inf)
    for ((a, b), dv) in (q.rows.zip dx) do
      if isZeroVec a then
        match dv with
        | .pinf => if b < 0 then return .propfail s!"[C14] distance({showVec x}): +inf for the row 0·x ≤ {b}, which no point satisfies (expected −inf)"
        | .ninf => if b > 0 then return .propfail s!"[C14] distance({showVec x}): −inf for the row 0·x ≤ {b}, which every point satisfies (expected +inf)"
        | .fin v => if b != 0 then return .propfail s!"[C14] distance({showVec x}): finite entry {v} for the zero row 0·x ≤ {b}"
        | .nan => if b != 0 then return .propfail s!"[C14] distance({showVec x}): NaN for the zero row 0·x ≤ {b}"
    -- distance(): sign per row with a non-zero normal
    for ((a, b), dv) in (q.rows.zip d) do
      if !isZeroVec a then
        let raw := b - dot a x
        match dv with
        | none => return .propfail s!"[C14] distance({showVec x}): non-finite entry for a row with non-zero normal"
        | some v =>
          if (raw > 0 && !(v > 0)) || (raw < 0 && !(v < 0)) || (raw == 0 && v != 0) then
            return .propfail s!"[C14] distance({showVec x}): entry {v} has the wrong sign for slack {raw}"
  match model with
  | none => return .diverge s!"{what}: model rejects the arguments, implementation returned {showAff q}"
  | some m =>
    if skipModel then return (if inexact then .inexact "contains" else .ok)
    match cmpAff m q with
    | .same => return (if inexact then .inexact "contains" else .ok)
    | .close => return .inexact "coefficients"
    | .different => return .diverge s!"{what}: model {showAff m} impl {showAff q}"

def judgeC14 : P Verdict := do
  let op ← tok
  tag op
  let tol : Q := ratOfMantExp 3022314549036573 (-78)   -- the f64 value of 1e-8
  match op with
  | "intersection" =>
    let p ← pAff; let q ← pAff
    finishPoly op (if p.indim == q.indim then some (Poly.intersection p q) else none)
      (fun x => Poly.memb p x && Poly.memb q x) tol
  | "intersection_n" =>
    let n ← pNat; let k ← pNat
    let ps ← pMany k pAff
    finishPoly op (some (Poly.intersectionN n ps)) (fun x => ps.all (fun p => Poly.memb p x)) tol
  | "translate" =>
    let p ← pAff; let d ← pVec
    finishPoly op (some (Poly.translate p d)) (fun x => Poly.memb p (vsub x d)) tol
  | "apply_pre" =>
    let p ← pAff; let f ← pAff
    finishPoly op (if p.indim == f.outdim then some (Poly.applyPre p f) else none)
      (fun x => Poly.memb p (f.apply x)) tol
  | "apply_post" =>
    let p ← pAff; let (m, mc) ← pMat; let (inv, _) ← pMat; let c ← pVec
    -- the harness supplies M and its exact inverse: check that, then y ∈ result ⇔ M⁻¹(y − c) ∈ P
    let n := p.indim
    if matMul mc m inv != eye n || matMul mc inv m != eye n then return .skip "generator did not produce an exact inverse pair"
    finishPoly op (some (Poly.applyPost p n inv c)) (fun y => Poly.memb p (matVec inv (vsub y c))) tol
  | "rotate" =>
    let p ← pAff; let (r, rc) ← pMat
    let n := p.indim
    let rt := transpose rc r
    if matMul rc r rt != eye n then return .skip "generator did not produce an orthogonal matrix"
    finishPoly op (some (Poly.rotate p r)) (fun y => Poly.memb p (matVec rt y)) tol
  | "hypercube" =>
    let n ← pNat; let r ← pNum
    finishPoly op (some (Poly.hypercube n r)) (fun x => x.all (fun v => -r ≤ v && v ≤ r)) tol
  | "hyperrectangle" =>
    let n ← pNat
    let ivs ← pMany n (do let lo ← pBound; let hi ← pBound; pure (lo, hi))
    let valid := ivs.all (fun (lo, hi) => match lo, hi with | some l, some h => decide (l ≤ h) | _, _ => true)
    finishPoly op (if valid then some (Poly.hyperrectangle ivs) else none)
      (fun x => (x.zip ivs).all (fun (v, (lo, hi)) =>
        (match lo with | some l => decide (l ≤ v) | none => true) && (match hi with | some h => decide (v ≤ h) | none => true))) tol
  | "axis_bounds" =>
    let n ← pNat; let axis ← pNat; let lo ← pBound; let hi ← pBound
    let valid := axis < n && (match lo, hi with | some l, some h => decide (l ≤ h) | _, _ => true)
    finishPoly op (if valid then some (Poly.axisBounds n axis lo hi) else none)
      (fun x => let v := x.getD axis 0
        (match lo with | some l => decide (l ≤ v) | none => true) && (match hi with | some h => decide (v ≤ h) | none => true)) tol
  | "unbounded" =>
    let n ← pNat
    finishPoly op (some (Poly.unbounded n)) (fun _ => true) tol
  | "empty" =>
    let n ← pNat
    finishPoly op (some (Poly.empty n)) (fun _ => false) tol
  | "cross_polytope" =>
    let n ← pNat
    finishPoly op (some (Poly.crossPolytope n)) (fun x => (x.foldl (fun acc v => acc + absQ v) 0) ≤ 1) tol
  | "from_normal" =>
    let (nv, n) ← pMat; let (pv, _) ← pMat
    finishPoly op (some (Poly.fromNormal n nv pv))
      (fun x => (nv.zip pv).all (fun (nr, pr) => dot nr (vsub x pr) ≥ 0)) tol
  | "simplex" =>
    let n ← pNat
    -- the only irrational ingredient is sqrt(n+1); membership is judged against the returned rows themselves
    -- and the structure against the model with the implementation's value of the root
    expect "|"
    let st ← tok
    if st == "panic" then return .propfail "[C14] simplex panicked"
    tag "nt"
    let q ← pAff
    let s := -(q.mat.headD [] |>.headD 0) + 1 - 1 - (n : Q)   -- mat[0][0] = 1 + dist, dist = −(1 + s + n)
    let s := -( (q.mat.headD [] |>.headD 0) - 1) - 1 - (n : Q)
    let _ := s
    let s' : Q := -((q.mat.headD [] |>.headD 0) - 1) - 1 - (n : Q)
    if !(absQ (s' * s' - ((n : Q) + 1)) ≤ mkRat 1 1000000000 * ((n : Q) + 1)) || s' < 0 then
      return .propfail s!"[C14] simplex({n}): diagonal offset is not −(1 + sqrt(n+1) + n)"
    if cmpAff (Poly.simplex n (n : Q) s') q != .same then
      return .propfail s!"[C14] simplex({n}): rows differ from the definition"
    -- vertices: −e_i·c … the d+1 rows are facets; origin strictly inside
    if !(q.rows.all (fun (a, b) => dot a (zeros n) < b)) then return .propfail "[C14] simplex: origin is not strictly inside"
    pure .ok
  | _ => throw s!"unknown C14 op {op}"

end AV.Judge
